"""detsim kernel: seed derivation, event log / digest, fork-per-run worker pool.

One integer (VERIF_SEED) decides everything: run i of check P draws every choice
from random.Random(sha256(f"{seed}/{P}/{i}")).  Nothing here reads a clock for a
decision; wall time is only used for budgets (whose expiry is a harness error or
a batch cut-off, never a verdict).
"""
import hashlib
import json
import os
import pickle
import random
import select
import signal
import struct
import sys
import time
import traceback
import faulthandler

REPO = os.path.realpath(os.environ.get('VERIF_REPO', '/repo'))
VERIF = os.path.dirname(os.path.dirname(os.path.realpath(__file__)))


class HarnessError(Exception):
    """Something is wrong with the machinery (never a verdict on the repo)."""


def derive_rng(seed, prop, i, salt=''):
    h = hashlib.sha256(('%s/%s/%s/%s' % (seed, prop, i, salt)).encode()).digest()
    return random.Random(int.from_bytes(h, 'big'))


class EventLog(object):
    """Append-only log of decisions and observables; its sha256 is the run digest.

    Entries must be built only from deterministic data (no id(), no addresses,
    no wall time).  Logging never draws from the PRNG.
    """

    def __init__(self, keep=False):
        self._h = hashlib.sha256()
        self.n = 0
        self.keep = keep or bool(os.environ.get('VERIF_LOG_DUMP'))
        self.entries = []

    def add(self, *entry):
        s = repr(entry)
        self._h.update(s.encode('utf-8', 'backslashreplace'))
        self._h.update(b'\n')
        self.n += 1
        if self.keep:
            self.entries.append(s)

    def digest(self):
        dump = os.environ.get('VERIF_LOG_DUMP')
        if dump and self.keep:
            with open(dump, 'w') as f:
                f.write('\n'.join(self.entries) + '\n')
        return self._h.hexdigest()


def jdump(obj):
    return json.dumps(obj, sort_keys=True, separators=(',', ':'))


def short_hash(obj, n=16):
    if not isinstance(obj, (bytes, bytearray)):
        obj = jdump(obj).encode()
    return hashlib.sha256(obj).hexdigest()[:n]


# --------------------------------------------------------------------------
# fork-per-run pool
# --------------------------------------------------------------------------

def _write_all(fd, data):
    mv = memoryview(data)
    while mv:
        n = os.write(fd, mv)
        mv = mv[n:]


def _read_exact(fd, n):
    chunks = []
    while n:
        b = os.read(fd, n)
        if not b:
            return None
        chunks.append(b)
        n -= len(b)
    return b''.join(chunks)


def run_isolated(fn, arg, timeout):
    """Run fn(arg) in a forked child; return ('ok', result) | ('err', text) |
    ('timeout', None) | ('died', status).  The caller must be single-threaded."""
    r, w = os.pipe()
    sys.stdout.flush()
    sys.stderr.flush()
    pid = os.fork()
    if pid == 0:
        code = 0
        try:
            os.close(r)
            try:
                # no watchdog *thread* (dump_traceback_later) here: runs fork again,
                # and a forked child would deadlock on the dead watchdog's lock
                faulthandler.register(signal.SIGALRM, all_threads=True, chain=False)
                signal.alarm(max(1, int(timeout) - 1))
            except Exception:
                pass
            try:
                res = ('ok', fn(arg))
            except BaseException:
                res = ('err', traceback.format_exc())
            try:
                data = pickle.dumps(res, protocol=4)
            except BaseException:
                data = pickle.dumps(('err', 'unpicklable result: ' + traceback.format_exc()))
            _write_all(w, data)
        except BaseException:
            code = 3
        finally:
            os._exit(code)
    os.close(w)
    buf = []
    deadline = time.monotonic() + timeout
    status = None
    try:
        while True:
            left = deadline - time.monotonic()
            if left <= 0:
                status = 'timeout'
                break
            rl, _, _ = select.select([r], [], [], left)
            if not rl:
                status = 'timeout'
                break
            b = os.read(r, 1 << 16)
            if not b:
                break
            buf.append(b)
    finally:
        os.close(r)
    if status == 'timeout':
        try:
            os.kill(pid, signal.SIGKILL)
        except OSError:
            pass
        os.waitpid(pid, 0)
        return ('timeout', None)
    _, st = os.waitpid(pid, 0)
    data = b''.join(buf)
    if not data:
        return ('died', st)
    try:
        return pickle.loads(data)
    except Exception:
        return ('died', st)


def _worker_main(fn, indices, out_fd, run_timeout, stop_at):
    for i in indices:
        if stop_at is not None and time.monotonic() > stop_at:
            break
        res = run_isolated(fn, i, run_timeout)
        data = pickle.dumps((i, res), protocol=4)
        _write_all(out_fd, struct.pack('<I', len(data)) + data)


def run_pool(fn, indices, nproc, run_timeout=60, wall_budget=None, on_result=None):
    """Execute fn(i) for i in indices, each in its own forked process, nproc at a
    time.  Returns dict i -> (status, payload).  Indices not executed because the
    wall budget ran out are simply absent (reported by the caller as not run)."""
    indices = list(indices)
    nproc = max(1, min(nproc, len(indices)))
    stop_at = None if wall_budget is None else time.monotonic() + wall_budget
    workers = {}
    sys.stdout.flush()
    sys.stderr.flush()
    for k in range(nproc):
        r, w = os.pipe()
        pid = os.fork()
        if pid == 0:
            code = 0
            try:
                os.close(r)
                for fd in [x[0] for x in workers.values()]:
                    try:
                        os.close(fd)
                    except OSError:
                        pass
                _worker_main(fn, indices[k::nproc], w, run_timeout, stop_at)
            except BaseException:
                traceback.print_exc()
                code = 4
            finally:
                os._exit(code)
        os.close(w)
        workers[pid] = [r, b'']
    results = {}
    hard_deadline = None
    if wall_budget is not None:
        hard_deadline = time.monotonic() + wall_budget + run_timeout + 30
    open_fds = {v[0]: pid for pid, v in workers.items()}
    while open_fds:
        to = 5.0
        if hard_deadline is not None and time.monotonic() > hard_deadline:
            for pid in workers:
                try:
                    os.kill(pid, signal.SIGKILL)
                except OSError:
                    pass
            break
        rl, _, _ = select.select(list(open_fds), [], [], to)
        for fd in rl:
            pid = open_fds[fd]
            b = os.read(fd, 1 << 20)
            if not b:
                os.close(fd)
                del open_fds[fd]
                continue
            buf = workers[pid][1] + b
            while len(buf) >= 4:
                (n,) = struct.unpack('<I', buf[:4])
                if len(buf) < 4 + n:
                    break
                i, res = pickle.loads(buf[4:4 + n])
                buf = buf[4 + n:]
                results[i] = res
                if on_result is not None:
                    on_result(i, res)
            workers[pid][1] = buf
    worker_fail = []
    for pid in workers:
        try:
            _, st = os.waitpid(pid, 0)
            if st != 0:
                worker_fail.append((pid, st))
        except ChildProcessError:
            pass
    if worker_fail:
        raise HarnessError('worker process(es) died: %r' % (worker_fail,))
    return results
