"""Simulated wall clock.  `make_datetime_class(clock)` returns a datetime subclass
whose now() reads the simulator's clock; it is bound over the module-level name
`datetime` of the module under test (geodepy.gnss), so no source change is
needed.  The clock only moves when the schedule says so: set(), advance(), and
an advance-on-read policy applied after each read (so that two reads inside one
edit can straddle a boundary).  Real time is never consulted."""
import datetime as _dt


class SimClock(object):
    def __init__(self, start=None):
        self.t = start or _dt.datetime(2020, 1, 1, 12, 0, 0)
        self.reads = []              # every value handed out
        self.policy = [0.0]          # seconds to add after the k-th read (cycled)
        self._k = 0
        self.jump_to = None          # (read_index, datetime): jump just before that read

    def set(self, t):
        self.t = t

    def advance(self, seconds):
        self.t = self.t + _dt.timedelta(seconds=seconds)

    def set_policy(self, steps):
        self.policy = list(steps) or [0.0]
        self._k = 0

    def read(self):
        v = self.t
        self.reads.append(v)
        step = self.policy[self._k % len(self.policy)]
        self._k += 1
        if step:
            self.t = self.t + _dt.timedelta(seconds=step)
        return v


def make_datetime_class(clock):
    class SimDateTime(_dt.datetime):
        @classmethod
        def now(cls, tz=None):
            v = clock.read()
            return cls(v.year, v.month, v.day, v.hour, v.minute, v.second, v.microsecond)

        @classmethod
        def today(cls):
            return cls.now()

        @classmethod
        def utcnow(cls):
            return cls.now()
    SimDateTime.__name__ = 'datetime'
    SimDateTime.__qualname__ = 'datetime'
    return SimDateTime
