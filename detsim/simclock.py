"""Simulated wall clock.  `make_datetime_class(clock)` returns a datetime subclass
whose now() reads the simulator's clock; it is bound over the module-level name
`datetime` of the module under test (geodepy.gnss), so no source change is
needed.  The clock only moves when the schedule says so: set(), advance(), and
an advance-on-read policy applied after each read (so that two reads inside one
edit can straddle a boundary).  Real time is never consulted."""
import datetime as _dt


class SimClock(object):
    def __init__(self, start=None):
        self.t = start or _dt.datetime(2020, 1, 1, 12, 0, 0)
        self.reads = []              # every value handed out
        self.policy = [0.0]          # seconds to add after the k-th read (cycled)
        self._k = 0
        self.jump_to = None          # (read_index, datetime): jump just before that read

    def set(self, t):
        self.t = t

    def advance(self, seconds):
        self.t = self.t + _dt.timedelta(seconds=seconds)

    def set_policy(self, steps):
        self.policy = list(steps) or [0.0]
        self._k = 0

    def read(self):
        v = self.t
        self.reads.append(v)
        step = self.policy[self._k % len(self.policy)]
        self._k += 1
        if step:
            self.t = self.t + _dt.timedelta(seconds=step)
        return v


def make_datetime_class(clock):
    class SimDateTime(_dt.datetime):
        @classmethod
        def now(cls, tz=None):
            v = clock.read()
            return cls(v.year, v.month, v.day, v.hour, v.minute, v.second, v.microsecond, tzinfo=tz)

        @classmethod
        def fromtimestamp(cls, ts, tz=None):
            # the simulated zone is UTC: local time == UTC, whatever the sandbox's TZ says
            if tz is not None:
                return super().fromtimestamp(ts, tz)
            v = _dt.datetime(1970, 1, 1) + _dt.timedelta(seconds=ts)
            return cls(v.year, v.month, v.day, v.hour, v.minute, v.second, v.microsecond)

        @classmethod
        def today(cls):
            return cls.now()

        @classmethod
        def utcnow(cls):
            return cls.now()
    SimDateTime.__name__ = 'datetime'
    SimDateTime.__qualname__ = 'datetime'
    return SimDateTime


def install_clock_seam(module, clock):
    """Rebind every module-level name of `module` that refers to the real clock (the
    datetime class, the datetime module, the time module) to a simulated equivalent.
    Returns a dict name -> original value for restoring.  The usual case is one
    name (`datetime`); the rest makes the seam survive an innocent refactoring such as
    `import datetime as dt` / `import time`."""
    import time as _time
    import types
    sim_dt = make_datetime_class(clock)
    saved = {}

    class _DateTimeModuleProxy(types.ModuleType):
        def __getattr__(self, name):
            return getattr(_dt, name)
    dt_proxy = _DateTimeModuleProxy('datetime')
    dt_proxy.datetime = sim_dt

    class _SimDate(_dt.date):
        @classmethod
        def today(cls):
            v = clock.read()
            return cls(v.year, v.month, v.day)
    dt_proxy.date = _SimDate

    class _TimeModuleProxy(types.ModuleType):
        def __getattr__(self, name):
            return getattr(_time, name)

    def _epoch():
        v = clock.read()
        return (v - _dt.datetime(1970, 1, 1)).total_seconds()
    def _epoch_ns():
        d = clock.read() - _dt.datetime(1970, 1, 1)
        return ((d.days * 86400 + d.seconds) * 1000000 + d.microseconds) * 1000
    t_proxy = _TimeModuleProxy('time')
    t_proxy.time = _epoch
    t_proxy.time_ns = _epoch_ns
    t_proxy.localtime = lambda secs=None: _time.gmtime(_epoch() if secs is None else secs)
    t_proxy.gmtime = lambda secs=None: _time.gmtime(_epoch() if secs is None else secs)
    t_proxy.strftime = lambda fmt, t=None: _time.strftime(fmt, t_proxy.gmtime() if t is None else t)
    t_proxy.asctime = lambda t=None: _time.asctime(t_proxy.gmtime() if t is None else t)
    t_proxy.ctime = lambda secs=None: _time.asctime(t_proxy.gmtime(secs))
    t_proxy.mktime = lambda t: __import__('calendar').timegm(t)      # local zone == UTC in the simulation
    direct = {}
    for fn in ('time', 'time_ns', 'localtime', 'gmtime', 'strftime', 'asctime', 'ctime', 'mktime'):
        direct[id(getattr(_time, fn))] = getattr(t_proxy, fn)
    for name, val in list(vars(module).items()):
        if callable(val) and id(val) in direct and getattr(val, '__module__', None) == 'time':
            saved[name] = val                      # `from time import time, localtime`
            setattr(module, name, direct[id(val)])
            continue
        if val is _dt.datetime:
            saved[name] = val
            setattr(module, name, sim_dt)
        elif val is _dt:
            saved[name] = val
            setattr(module, name, dt_proxy)
        elif val is _time:
            saved[name] = val
            setattr(module, name, t_proxy)
        elif val is _dt.date:
            saved[name] = val
            setattr(module, name, _SimDate)
    return saved


def restore_seam(module, saved):
    for name, val in saved.items():
        setattr(module, name, val)
