"""SimFS: the simulated disk + cwd under geodepy.gnss / geodepy.ntv2reader.

An in-memory path -> bytes map.  `fs.open` is bound over the module-level name
`open` of the module under test (a module global shadows the builtin: no source
change in /repo).  Handles implement exactly the calls the code under test uses,
record every operation (handle id, kind, offset, length) in an I/O history, and
consult a fault plan:

  bitrot   flip stored bytes between two operations (done by the harness via
           fs.flip(); recorded)
  eio      OSError(EIO) on the n-th read of a path
  enospc   OSError(ENOSPC) once a path has received `after_bytes` bytes
  crash    SimCrash (BaseException) raised inside the n-th write call; bytes of
           earlier writes survive, the crashing write survives as a torn prefix
  torn     file replaced by a prefix of itself (crashed *writer*, before reading)
"""
import errno
import io
import os
import posixpath

os_strerror = os.strerror


class SimStat(object):
    """what os.stat returns, for a simulated file"""
    __slots__ = ('st_mode', 'st_ino', 'st_size', 'st_mtime')
    st_dev = 64
    st_nlink = 1
    st_uid = st_gid = 0

    def __init__(self, mode, ino, size, mtime):
        self.st_mode, self.st_ino, self.st_size, self.st_mtime = mode, ino, size, mtime

    st_atime = st_ctime = property(lambda self: self.st_mtime)
    st_mtime_ns = st_atime_ns = st_ctime_ns = property(lambda self: int(round(self.st_mtime * 1e9)))

    def __iter__(self):
        return iter((self.st_mode, self.st_ino, self.st_dev, self.st_nlink, self.st_uid, self.st_gid, self.st_size,
                     int(self.st_mtime), int(self.st_mtime), int(self.st_mtime)))

    def __getitem__(self, i):
        return tuple(self)[i]

    def __repr__(self):
        return 'SimStat(mode=%o, ino=%d, size=%d, mtime=%r)' % (self.st_mode, self.st_ino, self.st_size, self.st_mtime)


class SimCrash(BaseException):
    """The simulated process died inside a write (only durable bytes survive)."""


class _Handle(object):
    def __init__(self, fs, path, mode, hid):
        self.fs = fs
        self.path = path
        self.mode = mode
        self.hid = hid
        self.binary = 'b' in mode
        self.pos = 0
        self.closed = False
        self._can_write = any(c in mode for c in 'wa+')
        self._can_read = 'r' in mode or '+' in mode
        if 'a' in mode:
            self.pos = len(fs.files[path])

    # -- context manager -------------------------------------------------
    def __enter__(self):
        return self

    def __exit__(self, et, ev, tb):
        self.close()
        return False

    def close(self):
        if not self.closed:
            self.closed = True
            self.fs.open_handles -= 1
            self.fs._rec(self, 'close', self.pos, 0)

    # -- helpers ---------------------------------------------------------
    def _check(self):
        if self.closed:
            raise ValueError('I/O operation on closed file.')

    def _data(self):
        return self.fs.files[self.path]

    def _out(self, b):
        if self.binary:
            return bytes(b)
        return bytes(b).decode('utf-8', 'surrogateescape')

    def _read_fault(self, n):
        fs = self.fs
        k = fs.read_count.get(self.path, 0) + 1
        fs.read_count[self.path] = k
        plan = fs.eio_plan.get(self.path)
        if plan and k in plan:
            fs.fired['eio'] = fs.fired.get('eio', 0) + 1
            fs._rec(self, 'EIO', self.pos, n)
            # OSError(errno, ...) yields the matching subclass (InterruptedError, TimeoutError, ...)
            code = fs.eio_errno
            raise OSError(code, os_strerror(code) + ' (simulated)', self.path)

    # -- reading ---------------------------------------------------------
    def read(self, n=-1):
        self._check()
        if not self._can_read:
            raise io.UnsupportedOperation('not readable')
        d = self._data()
        if n is None or n < 0:
            n = max(0, len(d) - self.pos)
        self._read_fault(n)
        b = d[self.pos:self.pos + n] if self.pos >= 0 else b''
        self.fs._rec(self, 'read', self.pos, n)
        self.pos += len(b)
        return self._out(b)

    def readline(self):
        self._check()
        if not self._can_read:
            raise io.UnsupportedOperation('not readable')
        d = self._data()
        if self.pos >= len(d):
            self._read_fault(0)
            self.fs._rec(self, 'readline', self.pos, 0)
            return self._out(b'')          # at / beyond EOF: nothing read, position unchanged
        j = d.find(b'\n', self.pos)
        end = len(d) if j < 0 else j + 1
        self._read_fault(end - self.pos)
        b = d[self.pos:end]
        self.fs._rec(self, 'readline', self.pos, len(b))
        self.pos = end
        return self._out(b)

    def readinto(self, buf):
        if not self.binary:
            raise AttributeError("'TextIOWrapper' object has no attribute 'readinto'")
        mv = memoryview(buf).cast('B')
        b = self.read(len(mv))
        mv[:len(b)] = b
        return len(b)

    readinto1 = readinto

    def read1(self, n=-1):
        return self.read(n)

    def readable(self):
        return self._can_read

    def writable(self):
        return self._can_write

    def seekable(self):
        return True

    def isatty(self):
        return False

    def fileno(self):
        raise io.UnsupportedOperation('fileno (simulated file)')

    @property
    def name(self):
        return self.path

    def readlines(self):
        out = []
        while True:
            line = self.readline()
            if not line:
                break
            out.append(line)
        return out

    def __iter__(self):
        return self

    def __next__(self):
        line = self.readline()
        if not line:
            raise StopIteration
        return line

    # -- positioning -----------------------------------------------------
    def seek(self, off, whence=0):
        self._check()
        if whence == 0:
            new = off
        elif whence == 1:
            if not self.binary and off != 0:
                raise io.UnsupportedOperation("can't do nonzero cur-relative seeks")
            new = self.pos + off
        elif whence == 2:
            if not self.binary and off != 0:
                raise io.UnsupportedOperation("can't do nonzero end-relative seeks")
            new = len(self._data()) + off
        else:
            raise ValueError('invalid whence')
        self.fs._rec(self, 'seek', new, off)
        if new < 0:
            # a real binary file raises EINVAL for a negative absolute position
            raise OSError(errno.EINVAL, 'Invalid argument')
        self.pos = new
        return new

    def tell(self):
        self._check()
        return self.pos

    # -- writing ---------------------------------------------------------
    def write(self, s):
        self._check()
        if not self._can_write:
            raise io.UnsupportedOperation('not writable')
        if self.binary:
            b = bytes(s)
        else:
            if not isinstance(s, str):
                raise TypeError('write() argument must be str, not %s' % type(s).__name__)
            b = s.encode('utf-8', 'surrogateescape')
        fs = self.fs
        fs.write_calls += 1
        d = self._data()
        if fs.crash_at is not None and fs.write_calls == fs.crash_at:
            keep = fs.crash_keep if fs.crash_keep is not None else len(b) // 2
            part = b[:keep]
            d[self.pos:self.pos + len(part)] = part
            fs.fired['crash'] = fs.fired.get('crash', 0) + 1
            fs._rec(self, 'CRASH', self.pos, len(part))
            fs.crashed = True
            raise SimCrash('simulated crash inside write #%d' % fs.write_calls)
        cap = fs.enospc_plan.get(self.path)
        if cap is not None:
            room = cap - fs.written.get(self.path, 0)
            if len(b) > room:
                part = b[:max(0, room)]
                d[self.pos:self.pos + len(part)] = part
                self.pos += len(part)
                fs.written[self.path] = fs.written.get(self.path, 0) + len(part)
                fs.fired['enospc'] = fs.fired.get('enospc', 0) + 1
                fs._rec(self, 'ENOSPC', self.pos, len(part))
                raise OSError(errno.ENOSPC, 'No space left on device (simulated)', self.path)
        if self.pos > len(d) and b:
            d.extend(b'\0' * (self.pos - len(d)))
        d[self.pos:self.pos + len(b)] = b
        fs._rec(self, 'write', self.pos, len(b))
        if b:
            fs.mtime[self.path] = float(fs.now())
        self.pos += len(b)
        fs.written[self.path] = fs.written.get(self.path, 0) + len(b)
        return len(s)

    def flush(self):
        self._check()

    def writelines(self, lines):
        for l in lines:
            self.write(l)


class SimRaw(io.RawIOBase):
    """what io.FileIO(path) gives for a simulated file: a raw stream that io.BufferedReader /
    io.BufferedWriter / io.TextIOWrapper can be stacked on"""

    def __init__(self, handle, name):
        io.RawIOBase.__init__(self)
        self._h = handle
        self.name = name
        self.mode = handle.mode

    def readable(self):
        return self._h._can_read

    def writable(self):
        return self._h._can_write

    def seekable(self):
        return True

    def readinto(self, b):
        return self._h.readinto(b)

    def write(self, b):
        return self._h.write(bytes(b))

    def seek(self, off, whence=0):
        return self._h.seek(off, whence)

    def tell(self):
        return self._h.tell()

    def truncate(self, size=None):
        size = self._h.pos if size is None else size
        d = self._h._data()
        del d[size:]
        return size

    def fileno(self):
        raise io.UnsupportedOperation('fileno (simulated file)')

    def isatty(self):
        return False

    def close(self):
        if not self.closed:
            try:
                self._h.close()
            finally:
                io.RawIOBase.close(self)


FD_BASE = 1 << 24


class SimFS(object):
    def __init__(self, cwd='/sim', record=True):
        self.files = {}          # abs path -> bytearray
        self.cwd = cwd
        self.record = record
        self.history = []        # (hid, path, kind, offset, length)
        self.next_hid = 0
        self.open_handles = 0
        self.opens = []          # (path, mode)
        self.read_count = {}
        self.written = {}
        self.write_calls = 0
        self.eio_plan = {}       # path -> set of nth-read indices
        self.eio_errno = errno.EIO
        self.enospc_plan = {}    # path -> byte capacity
        self.crash_at = None     # nth write call (global) at which to crash
        self.crash_keep = None
        self.crashed = False
        self.fired = {}
        self.mtime = {}          # abs path -> simulated modification time (seconds, float)
        self.ino = {}            # abs path -> inode number (new file = new number)
        self._next_ino = 1000
        self.now = lambda: 0.0   # simulated clock for time stamps (never advances it)
        self.stat_calls = 0
        self.fds = {}            # fake file descriptor -> binary handle (os.open on a simulated path)

    # -- file descriptors -------------------------------------------------
    def os_open(self, path, flags, mode=0o777, *a, **k):
        p = self.abspath(path)
        exists = p in self.files
        if flags & os.O_CREAT:
            if exists and flags & os.O_EXCL:
                raise FileExistsError(errno.EEXIST, 'File exists (simfs)', str(path))
        elif not exists:
            raise FileNotFoundError(errno.ENOENT, 'No such file or directory (simfs)', str(path))
        acc = flags & os.O_ACCMODE
        if acc == os.O_RDONLY:
            m = 'rb'
        elif flags & os.O_APPEND:
            m = 'ab'
        elif exists and not flags & os.O_TRUNC:
            m = 'r+b'
        else:
            m = 'w+b' if acc == os.O_RDWR else 'wb'
        h = self.open(p, m)
        if acc == os.O_WRONLY:
            h._can_read = False
        fd = FD_BASE + h.hid
        self.fds[fd] = h
        return fd

    def fd_handle(self, fd, mode='r'):
        """open(fd, mode) / os.fdopen(fd, mode): a text or binary view on an already open descriptor"""
        h = self.fds[fd]
        m = mode.replace('t', '')
        v = _Handle(self, h.path, ('r+' if 'r' in m and '+' in m else 'r' if 'r' in m else 'r+') + ('b' if 'b' in m else ''), h.hid)
        v._can_read = h._can_read and ('r' in m or '+' in m)
        v._can_write = h._can_write and any(c in m for c in 'wa+')
        v.pos = len(self.files[h.path]) if 'a' in m else h.pos
        self.open_handles += 1
        fs = self

        def close(orig=v.close):
            orig()
            hh = fs.fds.pop(fd, None)
            if hh is not None:
                hh.close()
        v.close = close
        return v

    def _touch(self, path, new_file=False):
        self.mtime[path] = float(self.now())
        if new_file or path not in self.ino:
            self._next_ino += 1
            self.ino[path] = self._next_ino

    # -- paths -----------------------------------------------------------
    def abspath(self, p):
        if isinstance(p, bytes):
            p = p.decode()
        p = str(p)
        if not p.startswith('/'):
            p = posixpath.join(self.cwd, p)
        return posixpath.normpath(p)

    def _rec(self, h, kind, off, n):
        if self.record:
            self.history.append((h.hid, h.path, kind, off, n))

    # -- the seam --------------------------------------------------------
    def open(self, file, mode='r', *args, **kwargs):
        path = self.abspath(file)
        m = mode.replace('t', '')
        if 'r' in m:
            if path not in self.files:
                raise FileNotFoundError(errno.ENOENT, 'No such file or directory (simfs)', str(file))
        elif 'w' in m:
            self._touch(path, new_file=path not in self.files)
            self.files[path] = bytearray()
            self.written[path] = 0
        elif 'a' in m:
            if path not in self.files:
                self._touch(path, new_file=True)
            self.files.setdefault(path, bytearray())
        elif 'x' in m:
            if path in self.files:
                raise FileExistsError(errno.EEXIST, 'File exists (simfs)', str(file))
            self._touch(path, new_file=True)
            self.files[path] = bytearray()
        else:
            raise ValueError('invalid mode: %r' % mode)
        h = _Handle(self, path, m, self.next_hid)
        self.next_hid += 1
        self.open_handles += 1
        self.opens.append((path, m))
        self._rec(h, 'open:' + m, 0, 0)
        return h

    # -- harness-side operations ------------------------------------------
    def put(self, path, data, in_place=False, mtime=None):
        p = self.abspath(path)
        self._touch(p, new_file=not in_place)
        if mtime is not None:
            self.mtime[p] = mtime            # a copy that preserves time stamps (cp -p, rsync -t), or a coarse clock
        self.files[p] = bytearray(data)

    def get(self, path):
        return bytes(self.files[self.abspath(path)])

    def exists(self, path):
        return self.abspath(path) in self.files

    def rename(self, a, b):
        a, b = self.abspath(a), self.abspath(b)
        self.files[b] = self.files.pop(a)
        if a in self.mtime:
            self.mtime[b] = self.mtime.pop(a)
        if a in self.ino:
            self.ino[b] = self.ino.pop(a)

    def remove(self, path):
        p = self.abspath(path)
        self.files.pop(p, None)
        self.mtime.pop(p, None)
        self.ino.pop(p, None)

    # -- os-level seam: what a module under test may ask the operating system about a path ------------
    def isdir(self, path):
        p = self.abspath(path)
        return p == '/' or any(f.startswith(p.rstrip('/') + '/') for f in self.files) or p == posixpath.normpath(self.cwd)

    def stat(self, path, *a, **k):
        p = self.abspath(path)
        self.stat_calls += 1
        self.opens.append((p, 'stat'))          # asking the simulated disk about a path counts as having gone through the seam
        if p in self.files:
            return SimStat(0o100644, self.ino.get(p, 1), len(self.files[p]), self.mtime.get(p, 0.0))
        if self.isdir(p):
            return SimStat(0o040755, 2, 4096, 0.0)
        raise FileNotFoundError(errno.ENOENT, 'No such file or directory (simfs)', str(path))

    def listdir(self, path='.'):
        p = self.abspath(path).rstrip('/') + '/'
        if not self.isdir(path):
            raise FileNotFoundError(errno.ENOENT, 'No such file or directory (simfs)', str(path))
        return sorted(set(f[len(p):].split('/')[0] for f in self.files if f.startswith(p)))

    def os_remove(self, path, *a, **k):
        p = self.abspath(path)
        if p not in self.files:
            raise FileNotFoundError(errno.ENOENT, 'No such file or directory (simfs)', str(path))
        self.remove(p)

    def os_rename(self, a, b, *x, **k):
        if self.abspath(a) not in self.files:
            raise FileNotFoundError(errno.ENOENT, 'No such file or directory (simfs)', str(a))
        self.rename(a, b)

    def os_proxy(self):
        """a stand-in for the `os` module: path queries and file management go to the simulated disk,
        everything else to the real module"""
        import types
        fs = self

        class _Proxy(types.ModuleType):
            def __init__(self, name, real):
                types.ModuleType.__init__(self, name)
                self.__dict__['_real'] = real

            def __getattr__(self, name):
                return getattr(self.__dict__['_real'], name)

        def _exists(p):
            try:
                fs.stat(p)
                return True
            except (OSError, ValueError):
                return False
        pth = _Proxy('posixpath', os.path)
        pth.exists = pth.lexists = _exists
        pth.isfile = lambda p: fs.abspath(p) in fs.files
        pth.isdir = lambda p: fs.abspath(p) not in fs.files and fs.isdir(p)
        pth.getsize = lambda p: fs.stat(p).st_size
        pth.getmtime = pth.getctime = pth.getatime = lambda p: fs.stat(p).st_mtime
        pth.abspath = pth.realpath = lambda p, **k: fs.abspath(os.fspath(p))
        pth.samefile = lambda a, b: fs.abspath(a) == fs.abspath(b)
        o = _Proxy('os', os)
        o.path = pth
        o.stat = o.lstat = fs.stat
        o.getcwd = lambda: fs.cwd
        o.listdir = fs.listdir
        o.remove = o.unlink = fs.os_remove
        o.rename = o.replace = fs.os_rename
        o.makedirs = o.mkdir = lambda *a, **k: None
        o.access = lambda p, mode=0, **k: _exists(p)
        return o

    def _is_sim_path(self, p):
        """does this path name something on the simulated disk?  Relative names (the simulated cwd), stored
        files, and names inside a directory that holds stored files."""
        if isinstance(p, int):
            return False
        try:
            p = os.fspath(p)
        except TypeError:
            return False
        if isinstance(p, bytes):
            p = p.decode('utf-8', 'replace')
        if not p.startswith('/'):
            return True
        a = self.abspath(p)
        if a in self.files:
            return True
        d = posixpath.dirname(a)
        root = '/' + posixpath.normpath(self.cwd).split('/')[1]
        return d != '/' and (a == root or a.startswith(root + '/') or any(f.startswith(d + '/') for f in self.files))

    def install_global_seam(self, patch_getcwd=True):
        """Second line of the storage seam.  The module-level name `open` of the module under test is the
        first; a rewrite that reaches the disk another way (io.open, codecs.open, pathlib.Path.open /
        read_text / exists / stat, os.path.* and os.* of a module imported later) ends up in one of the
        functions rebound here, which send paths on the simulated disk to SimFS and every other path to the
        real function.  Returns the undo function."""
        import builtins
        import io
        fs = self
        real_open, real_io_open = builtins.open, io.open
        saved = [(builtins, 'open', builtins.open), (io, 'open', io.open)]

        def sim_open(file, mode='r', *a, **k):
            if isinstance(file, int) and not isinstance(file, bool):
                if file in fs.fds:
                    return fs.fd_handle(file, mode)
                return real_open(file, mode, *a, **k)
            if fs._is_sim_path(file):
                return fs.open(os.fspath(file), mode)
            return real_open(file, mode, *a, **k)
        builtins.open = sim_open
        io.open = sim_open
        real_fileio = io.FileIO

        class RoutedFileIO(real_fileio):
            def __new__(cls, file, mode='r', *a, **k):
                if isinstance(file, int) and file in fs.fds:
                    return SimRaw(fs.fd_handle(file, mode + ('b' if 'b' not in mode else '')), file)
                if not isinstance(file, int) and fs._is_sim_path(file):
                    return SimRaw(fs.open(os.fspath(file), mode + ('b' if 'b' not in mode else '')), os.fspath(file))
                return real_fileio.__new__(cls, file, mode, *a, **k)
        RoutedFileIO.__name__ = RoutedFileIO.__qualname__ = 'FileIO'
        saved.append((io, 'FileIO', real_fileio))
        io.FileIO = RoutedFileIO
        real_os_open, real_fdopen = os.open, os.fdopen
        saved.append((os, 'open', real_os_open))
        saved.append((os, 'fdopen', real_fdopen))
        os.open = lambda path, flags, mode=0o777, *a, **k: (fs.os_open(path, flags, mode) if fs._is_sim_path(path)
                                                            else real_os_open(path, flags, mode, *a, **k))
        os.fdopen = lambda fd, *a, **k: sim_open(fd, *a, **k)

        def route_fd(name, sim_fn):
            real = getattr(os, name, None)
            if real is None:
                return

            def f(fd, *a, **k):
                if isinstance(fd, int) and fd in fs.fds:
                    return sim_fn(fd, *a, **k)
                return real(fd, *a, **k)
            f.__name__ = name
            saved.append((os, name, real))
            setattr(os, name, f)

        def fd_close(fd):
            fs.fds.pop(fd).close()
        route_fd('close', fd_close)
        route_fd('fchmod', lambda fd, *a, **k: None)
        route_fd('fchown', lambda fd, *a, **k: None)
        route_fd('fsync', lambda fd: None)
        route_fd('fdatasync', lambda fd: None)
        route_fd('fstat', lambda fd: fs.stat(fs.fds[fd].path))
        route_fd('write', lambda fd, data: fs.fds[fd].write(bytes(data)))
        route_fd('read', lambda fd, n: fs.fds[fd].read(n))
        route_fd('lseek', lambda fd, pos, how: fs.fds[fd].seek(pos, how))
        route_fd('ftruncate', lambda fd, n: fs.files[fs.fds[fd].path].__delitem__(slice(n, None)))

        def route(name, sim_fn, nargs=1):
            real = getattr(os, name)

            def f(*a, **k):
                if a and nargs == 1 and isinstance(a[0], int) and a[0] in fs.fds:
                    return sim_fn(fs.fds[a[0]].path)          # os.stat(fd) and friends
                if a and all(fs._is_sim_path(x) for x in a[:nargs]):
                    return sim_fn(*a[:nargs])
                return real(*a, **k)
            f.__name__ = name
            saved.append((os, name, real))
            setattr(os, name, f)
        route('stat', fs.stat)
        route('lstat', fs.stat)
        route('listdir', fs.listdir)
        route('remove', fs.os_remove)
        route('unlink', fs.os_remove)
        route('rename', fs.os_rename, 2)
        route('replace', fs.os_rename, 2)
        route('mkdir', lambda p: None)
        route('makedirs', lambda p: None)
        route('access', lambda p: fs.exists(p) or fs.isdir(p))
        route('chmod', lambda p: None)
        route('chown', lambda p: None)

        def utime(p, times=None, *a, **k):
            ap = fs.abspath(p)
            if ap not in fs.files:
                raise FileNotFoundError(errno.ENOENT, 'No such file or directory (simfs)', str(p))
            fs.mtime[ap] = float(times[1]) if times else float(fs.now())
        real_utime = os.utime
        saved.append((os, 'utime', real_utime))
        os.utime = lambda p, *a, **k: utime(p, *a, **k) if fs._is_sim_path(p) else real_utime(p, *a, **k)
        if patch_getcwd:
            saved.append((os, 'getcwd', os.getcwd))
            os.getcwd = lambda: fs.cwd

        def undo():
            for mod, name, val in saved:
                setattr(mod, name, val)
        return undo

    def install_os_seam(self, module):
        """Rebind every module-level name of `module` that refers to the real `os` / `os.path` modules or
        to one of their path functions to the simulated equivalent.  Returns name -> original."""
        prox = self.os_proxy()
        table = {}
        for nm in ('stat', 'lstat', 'getcwd', 'listdir', 'remove', 'unlink', 'rename', 'replace', 'makedirs',
                   'mkdir', 'access'):
            table[id(getattr(os, nm))] = getattr(prox, nm)
        for nm in ('exists', 'lexists', 'isfile', 'isdir', 'getsize', 'getmtime', 'getctime', 'getatime',
                   'abspath', 'realpath', 'samefile'):
            table[id(getattr(os.path, nm))] = getattr(prox.path, nm)
        saved = {}
        for name, val in list(vars(module).items()):
            if val is os:
                saved[name] = val
                setattr(module, name, prox)
            elif val is os.path:
                saved[name] = val
                setattr(module, name, prox.path)
            elif callable(val) and id(val) in table and getattr(val, '__module__', None) in ('os', 'posix', 'posixpath', 'genericpath'):
                saved[name] = val
                setattr(module, name, table[id(val)])
        return saved

    def flip(self, path, offset, mask):
        d = self.files[self.abspath(path)]
        d[offset] ^= mask
        self.fired['bitrot'] = self.fired.get('bitrot', 0) + 1

    def truncate(self, path, keep):
        p = self.abspath(path)
        self.files[p] = self.files[p][:keep]
        self.fired['torn'] = self.fired.get('torn', 0) + 1

    def clear_faults(self):
        self.eio_plan = {}
        self.enospc_plan = {}
        self.crash_at = None
        self.crash_keep = None
        self.crashed = False

    def reads_of(self, path, since=0):
        p = self.abspath(path)
        return [(off, n) for (hid, pth, kind, off, n) in self.history[since:]
                if pth == p and kind == 'read']
