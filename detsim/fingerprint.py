"""Canonical, address-free, bit-exact fingerprints of Python values.

canon(x) -> nested JSON-able structure (type-tagged).  Floats are rendered with
float.hex() so -0.0, subnormals and every bit of the mantissa count; NaN is
canonicalised to 'nan' (payload ignored).  numpy arrays: dtype, shape, raw bytes.
Instances of repository classes: class name + canon of vars().  Objects in the
`names` identity map (the import-time constant catalogue) are rendered by name,
which keeps results small and makes aliasing visible.
"""
import datetime
import hashlib
import json
import re
import types

try:
    import numpy as np
except Exception:  # pragma: no cover
    np = None

_ADDR = re.compile(r'0x[0-9a-fA-F]+')
MAX_DEPTH = 12


def _f(x):
    if x != x:
        return 'nan'
    return float.hex(x)


def obj_state(x):
    """attribute dict of an object, whether it stores them in __dict__ or in __slots__"""
    d = {}
    try:
        d.update(vars(x))
    except TypeError:
        pass
    for klass in type(x).__mro__:
        slots = klass.__dict__.get('__slots__', ())
        if isinstance(slots, str):
            slots = (slots,)
        for name in slots:
            if name in ('__dict__', '__weakref__') or name in d:
                continue
            try:
                d[name] = getattr(x, name)
            except AttributeError:
                pass
    return d


class Canon(object):
    def __init__(self, names=None, repo_prefix=None):
        self.names = names or {}          # id(obj) -> name
        self.repo_prefix = repo_prefix

    def is_repo_class(self, cls):
        mod = getattr(cls, '__module__', '') or ''
        return mod.startswith('geodepy') or mod.startswith('api') or mod.startswith('checks.')

    def canon(self, x, depth=0, by_name=True):
        if depth > MAX_DEPTH:
            return ['deep']
        if x is None or x is True or x is False:
            return x
        t = type(x)
        if by_name and self.names:
            nm = self.names.get(id(x))
            if nm is not None and t not in (int, float, str, bool):
                return ['const', nm]
        if t is int:
            return ['i', str(x)] if abs(x) > 2 ** 53 else x
        if t is float:
            return ['f', _f(x)]
        if t is str:
            return x
        if t is bytes or t is bytearray:
            return ['b', bytes(x).hex()]
        if t is complex:
            return ['c', _f(x.real), _f(x.imag)]
        if t is tuple:
            return ['t'] + [self.canon(e, depth + 1) for e in x]
        if t is list:
            return ['l'] + [self.canon(e, depth + 1) for e in x]
        if t is dict:
            items = [(self._key(k), self.canon(v, depth + 1)) for k, v in x.items()]
            items.sort(key=lambda kv: json.dumps(kv[0], sort_keys=True))
            return ['d'] + [[k, v] for k, v in items]
        if t is set or t is frozenset:
            items = [self.canon(e, depth + 1) for e in x]
            items.sort(key=lambda e: json.dumps(e, sort_keys=True))
            return ['s'] + items
        if t is datetime.date:
            return ['date', x.isoformat()]
        if t is datetime.datetime:
            return ['datetime', x.isoformat()]
        if t is datetime.timedelta:
            return ['td', x.days, x.seconds, x.microseconds]
        if np is not None:
            if isinstance(x, np.ndarray):
                if x.dtype == object:
                    return ['nda-o', list(x.shape)] + [self.canon(e, depth + 1) for e in x.ravel().tolist()]
                return ['nda', str(x.dtype), list(x.shape),
                        hashlib.sha256(np.ascontiguousarray(x).tobytes()).hexdigest()[:32]
                        if x.size > 64 else np.ascontiguousarray(x).tobytes().hex()]
            if isinstance(x, np.generic):
                return ['nps', str(x.dtype), x.tobytes().hex()]
        if isinstance(x, BaseException):
            return ['exc', type(x).__name__, _ADDR.sub('0x', str(x))]
        if isinstance(x, type):
            return ['type', getattr(x, '__module__', '?') + '.' + x.__qualname__]
        if isinstance(x, (types.FunctionType, types.BuiltinFunctionType, types.MethodType)):
            return ['fn', getattr(x, '__module__', '?'), getattr(x, '__qualname__', '?')]
        if isinstance(x, types.ModuleType):
            return ['mod', x.__name__]
        if self.is_repo_class(t):
            out = ['obj', t.__name__]
            # float / int / str subclasses (DECAngle) carry a base value too
            if isinstance(x, float):
                out.append(['f', _f(float.__float__(x))])
            elif isinstance(x, int):
                out.append(int.__int__(x))
            elif isinstance(x, str):
                out.append(str.__str__(x))
            d = obj_state(x)
            out.append(['d'] + [[k, self.canon(d[k], depth + 1)] for k in sorted(d)])
            return out
        if isinstance(x, float):
            return ['f', _f(float(x))]
        if isinstance(x, int):
            return int(x)
        return ['foreign', t.__module__ + '.' + t.__qualname__]

    def _key(self, k):
        if isinstance(k, (str, int, bool)) or k is None:
            return k
        return self.canon(k)

    def digest(self, x, by_name=True):
        c = self.canon(x, by_name=by_name)
        return hashlib.sha256(json.dumps(c, sort_keys=True, separators=(',', ':')).encode()).hexdigest()[:24]


def brief(c, limit=300):
    s = json.dumps(c, sort_keys=True, separators=(',', ':'))
    return s if len(s) <= limit else s[:limit] + '...'


def unhex_floats(c):
    """Human-readable variant of a canon structure (for reports only)."""
    if isinstance(c, list):
        if len(c) == 2 and c[0] == 'f' and isinstance(c[1], str):
            try:
                return float.fromhex(c[1]) if c[1] != 'nan' else 'nan'
            except ValueError:
                return c
        return [unhex_floats(e) for e in c]
    return c
