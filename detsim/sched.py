"""Deterministic scheduler for simulated caller threads.

The repository's functions are ordinary synchronous code, so the simulated
"nodes" are caller threads.  They are real OS threads passed a single baton:
every simulated thread blocks on its own semaphore, exactly one runs at a time,
and the decision who runs next is made by the thread holding the baton, inside
the sys.settrace callback, from the run's decider (seeded PRNG or a recorded
schedule).  Pre-emption points are `line` (optionally `opcode`) events in files
of the system under test only; library code outside it (numpy, Flask, stdlib)
runs un-pre-empted, so no foreign lock is ever held across a yield.
"""
import os
import sys
import threading
import zlib


def _with_exit_offsets(code):
    """bytecode offsets of the line events that start the implicit `__exit__(None, None, None)`
    call of a `with` statement on its normal (no exception) path"""
    import dis
    ins = list(dis.get_instructions(code))
    out = set()
    for i in range(len(ins) - 3):
        a, b, c, d = ins[i], ins[i + 1], ins[i + 2], ins[i + 3]
        if (a.opname == 'LOAD_CONST' and a.argval is None and b.opname == 'LOAD_CONST' and b.argval is None
                and c.opname == 'LOAD_CONST' and c.argval is None and d.opname == 'CALL' and d.arg == 2):
            out.add(a.offset)
            # `return` / `break` / `continue` inside the block: the exit sequence is preceded, on the same
            # line entry, by stack shuffling (SWAP / COPY / POP_TOP) - the line event fires there
            j = i
            while j > 0 and i - j < 4 and ins[j].starts_line is None and \
                    ins[j - 1].opname in ('SWAP', 'COPY', 'POP_TOP', 'NOP'):
                j -= 1
                out.add(ins[j].offset)
    # the exceptional path: when the block raises, control reaches PUSH_EXC_INFO; WITH_EXCEPT_START on the line of the
    # `with` statement (a line event fires there); an exception raised at that event is handled by the outer
    # clean-up entry, which does not call __exit__ either
    for i in range(len(ins) - 1):
        if ins[i].opname == 'PUSH_EXC_INFO' and ins[i + 1].opname == 'WITH_EXCEPT_START':
            out.add(ins[i].offset)
    return frozenset(out)


_CLEANUP_LINES = {}


def cleanup_lines(filename):
    """Source lines of a file that belong to clean-up code: bodies of `finally:` clauses, of `except`
    handlers that end in a bare `raise` (undo-and-re-raise), and of `__exit__` / `__aexit__` / `__del__`
    methods.  An asynchronous exception that arrives *inside* clean-up code defeats the clean-up in any
    Python program (the language offers no way to mask it), so an injected cancellation / allocation
    failure that falls there is delivered at the next line outside it instead."""
    got = _CLEANUP_LINES.get(filename)
    if got is not None:
        return got
    import ast
    lines = set()
    try:
        with open(filename, 'rb') as fh:
            tree = ast.parse(fh.read(), filename)
    except Exception:
        tree = None
    if tree is not None:
        def span(stmts):
            if stmts:
                lines.update(range(stmts[0].lineno, (stmts[-1].end_lineno or stmts[-1].lineno) + 1))
        for node in ast.walk(tree):
            if isinstance(node, (ast.Try, getattr(ast, 'TryStar', ast.Try))):
                span(node.finalbody)
                for h in node.handlers:
                    if h.body and isinstance(h.body[-1], ast.Raise) and h.body[-1].exc is None:
                        span(h.body)
            elif isinstance(node, (ast.FunctionDef, ast.AsyncFunctionDef)) and node.name in ('__exit__', '__aexit__', '__del__'):
                span(node.body)
    got = _CLEANUP_LINES[filename] = frozenset(lines)
    return got


def sut_code_objects(modules):
    """every code object defined in the given modules (functions, methods, nested functions, lambdas)"""
    import types
    seen, out = set(), []

    def walk(code):
        if code in seen:
            return
        seen.add(code)
        out.append(code)
        for c in code.co_consts:
            if isinstance(c, types.CodeType):
                walk(c)
    for m in modules:
        for v in list(vars(m).values()):
            if isinstance(v, types.FunctionType) and v.__module__ == m.__name__:
                walk(v.__code__)
            elif isinstance(v, type) and v.__module__ == m.__name__:
                for a in list(vars(v).values()):
                    f = a.__func__ if isinstance(a, (staticmethod, classmethod)) else a
                    f = getattr(f, 'fget', f) if isinstance(f, property) else f
                    if isinstance(f, types.FunctionType):
                        walk(f.__code__)
    return out


MON_TOOL = 3


ACTIVE = [None]       # the scheduler currently running simulated threads in this process


class SimLock(object):
    """Stand-in for a threading.Lock / RLock owned by the system under test.

    A simulated thread that is pre-empted while holding a real lock would dead-lock
    the simulation as soon as the thread holding the baton blocks on that lock.  A
    SimLock never blocks the baton holder: on contention it tells the scheduler that
    this thread is blocked and hands the baton to another runnable thread, then
    retries.  Outside a simulation it behaves like the lock it wraps."""

    def __init__(self, real):
        self._real = real

    def acquire(self, blocking=True, timeout=-1):
        s = ACTIVE[0]
        if s is None or s.current is None or threading.current_thread().name != 'sim-%d' % s.current:
            # single caller outside a scheduled batch (the harness runs such calls on one thread): a lock that
            # is taken and cannot be had at once will never be released by anybody
            if self._real.acquire(False):
                return True
            if not blocking:
                return False
            if timeout is not None and timeout > 0:
                return False
            if s is None and threading.current_thread() is threading.main_thread():
                raise RuntimeError('dead-lock in the system under test: the only caller waits for a lock that is '
                                   'already held (left locked by an earlier call?)')
            return self._real.acquire(blocking, timeout)
        timed = blocking and timeout is not None and timeout >= 0
        n = 0
        while not self._real.acquire(False):
            if not blocking:
                return False
            if timed:
                # acquire(timeout=...): simulated time passes while others run; give up after a bounded number
                # of hand-overs, or at once when nobody else can run
                n += 1
                if n > 50:
                    return False
                try:
                    s._blocked_on_lock(s.current, sys._getframe(1), None)
                except RuntimeError:
                    return False
            else:
                s._blocked_on_lock(s.current, sys._getframe(1), self)
        return True

    def release(self):
        self._real.release()
        s = ACTIVE[0]
        if s is not None:
            s.unblock(self)

    def locked(self):
        return self._real.locked() if hasattr(self._real, 'locked') else False

    def __enter__(self):
        self.acquire()
        return self

    def __exit__(self, *a):
        self.release()
        return False


class SimEvent(object):
    """threading.Event for the system under test: wait() never blocks the baton holder, it hands the
    baton on until the event is set (or, with a timeout, until nobody else can run / many hand-overs)."""

    def __init__(self):
        self._flag = False

    def is_set(self):
        return self._flag

    isSet = is_set

    def set(self):
        self._flag = True
        s = ACTIVE[0]
        if s is not None:
            s.unblock(self)

    def clear(self):
        self._flag = False

    def wait(self, timeout=None):
        s = ACTIVE[0]
        if s is None or s.current is None or threading.current_thread().name != 'sim-%d' % s.current:
            return self._flag
        n = 0
        while not self._flag:
            n += 1
            if timeout is not None and n > 200:
                return False
            try:
                s._blocked_on_lock(s.current, sys._getframe(1), self if timeout is None else None)
            except RuntimeError:
                if timeout is not None:
                    return False
                raise
        return True


def _sim_wait(predicate, timeout, frame, resource=None):
    """hand the baton on until predicate() holds; True if it does, False on (simulated) timeout"""
    s = ACTIVE[0]
    if s is None or s.current is None or threading.current_thread().name != 'sim-%d' % s.current:
        return predicate()
    n = 0
    while not predicate():
        n += 1
        if timeout is not None and n > 200:
            return False
        try:
            s._blocked_on_lock(s.current, frame, resource if timeout is None else None)
        except RuntimeError:
            if timeout is not None:
                return False
            raise
    return True


class SimSemaphore(object):
    """threading.Semaphore / BoundedSemaphore for the system under test (never blocks the baton holder)"""

    def __init__(self, value=1, bounded=False):
        self._value = value
        self._initial = value
        self._bounded = bounded

    def acquire(self, blocking=True, timeout=None):
        if self._value <= 0:
            if not blocking:
                return False
            if not _sim_wait(lambda: self._value > 0, timeout, sys._getframe(1), self):
                return False
        self._value -= 1
        return True

    def release(self, n=1):
        if self._bounded and self._value + n > self._initial:
            raise ValueError('Semaphore released too many times')
        self._value += n
        s = ACTIVE[0]
        if s is not None:
            s.unblock(self)

    def __enter__(self):
        self.acquire()
        return self

    def __exit__(self, *a):
        self.release()
        return False


class SimCondition(object):
    """threading.Condition for the system under test"""

    def __init__(self, lock=None):
        self._lock = simlock_for(lock) if lock is not None else SimLock(threading.RLock())
        self._waiters = []

    def acquire(self, *a, **k):
        return self._lock.acquire(*a, **k)

    def release(self):
        return self._lock.release()

    def __enter__(self):
        self._lock.acquire()
        return self

    def __exit__(self, *a):
        self._lock.release()
        return False

    def wait(self, timeout=None):
        token = [False]
        self._waiters.append(token)
        self._lock.release()
        try:
            ok = _sim_wait(lambda: token[0], timeout, sys._getframe(1), self)
        finally:
            self._lock.acquire()
            if token in self._waiters:
                self._waiters.remove(token)
        return ok

    def wait_for(self, predicate, timeout=None):
        result = predicate()
        n = 0
        while not result:
            n += 1
            if timeout is not None and n > 50:
                break
            self.wait(timeout)
            result = predicate()
        return result

    def notify(self, n=1):
        for token in self._waiters[:n]:
            token[0] = True
        del self._waiters[:n]
        s = ACTIVE[0]
        if s is not None:
            s.unblock(self)

    def notify_all(self):
        self.notify(len(self._waiters))

    notifyAll = notify_all


_SIMLOCKS = {}


def simlock_for(real):
    """the one SimLock standing for a given real lock (a Condition built on a lock must share it)"""
    if isinstance(real, SimLock):
        return real
    sl = _SIMLOCKS.get(id(real))
    if sl is None or sl._real is not real:
        sl = _SIMLOCKS[id(real)] = SimLock(real)
    return sl


def _convert_sync_object(val):
    """scheduler-aware stand-in for an existing threading object of the system under test, or None"""
    lock_types = (type(threading.Lock()), type(threading.RLock()))
    if isinstance(val, lock_types):
        return simlock_for(val)
    if isinstance(val, (threading.Semaphore, threading.BoundedSemaphore)):
        return SimSemaphore(val._value, bounded=isinstance(val, threading.BoundedSemaphore))
    if isinstance(val, threading.Event):
        ev = SimEvent()
        ev._flag = val.is_set()
        return ev
    if isinstance(val, threading.Condition):
        inner = getattr(val, '_lock', None)
        return SimCondition(simlock_for(inner) if inner is not None else None)
    return None


def wrap_module_locks(modules):
    """Replace the lock objects owned by the given SUT modules by SimLocks: module-level names, class
    attributes, and attributes / items of module-level objects and containers (a private cache object
    holding `self._lock`, a dict of locks, ...), to depth 3.  Returns the number of locks wrapped."""
    lock_types = (type(threading.Lock()), type(threading.RLock()))
    names = set(m.__name__ for m in modules)
    n = [0]
    seen = set()

    def visit(holder, get_items, set_item, depth):
        for key, val in get_items():
            conv = _convert_sync_object(val)
            if conv is not None:
                try:
                    set_item(key, conv)
                    n[0] += 1
                except Exception:
                    pass
            elif isinstance(val, (SimLock, SimEvent, SimSemaphore, SimCondition)):
                pass
            elif depth < 3 and id(val) not in seen:
                seen.add(id(val))
                descend(val, depth + 1)

    def descend(val, depth):
        if isinstance(val, dict):
            visit(val, lambda: list(val.items()), lambda k, v: val.__setitem__(k, v), depth)
        elif isinstance(val, list):
            visit(val, lambda: list(enumerate(val)), lambda k, v: val.__setitem__(k, v), depth)
        elif isinstance(val, type):
            if getattr(val, '__module__', None) in names:
                visit(val, lambda: list(vars(val).items()), lambda k, v: setattr(val, k, v), depth)
        elif getattr(type(val), '__module__', None) in names and hasattr(val, '__dict__'):
            visit(val, lambda: list(vars(val).items()), lambda k, v: setattr(val, k, v), depth)

    # locks the SUT creates later (inside functions, lazily) must be SimLocks too: rebind the factories
    import types
    real_lock, real_rlock = threading.Lock, threading.RLock

    def sim_lock():
        return SimLock(real_lock())

    def sim_rlock():
        return SimLock(real_rlock())

    class _ThreadingProxy(types.ModuleType):
        def __getattr__(self, name):
            return getattr(threading, name)
    proxy = _ThreadingProxy('threading')
    proxy.Lock, proxy.RLock, proxy.Event = sim_lock, sim_rlock, SimEvent
    proxy.Semaphore = SimSemaphore
    proxy.BoundedSemaphore = lambda value=1: SimSemaphore(value, bounded=True)
    proxy.Condition = SimCondition
    sem_types = (threading.Semaphore, threading.BoundedSemaphore)
    for mod in modules:
        for key, val in list(vars(mod).items()):
            if val is real_lock:
                setattr(mod, key, sim_lock)
            elif val is real_rlock:
                setattr(mod, key, sim_rlock)
            elif val is threading.Event:
                setattr(mod, key, SimEvent)
            elif val is threading.Semaphore:
                setattr(mod, key, SimSemaphore)
            elif val is threading.BoundedSemaphore:
                setattr(mod, key, proxy.BoundedSemaphore)
            elif val is threading.Condition:
                setattr(mod, key, SimCondition)
            elif val is threading:
                setattr(mod, key, proxy)
    for mod in modules:
        visit(mod, lambda: list(vars(mod).items()), lambda k, v: setattr(mod, k, v), 0)
    return n[0]


class SimCancelled(BaseException):
    """Injected cancellation (models KeyboardInterrupt / task cancel / time-out)."""


class StepBudgetExceeded(BaseException):
    """The run's line-event budget is exhausted (op is dropped, not judged)."""


# ---------------------------------------------------------------------------
# deciders
# ---------------------------------------------------------------------------

class Decider(object):
    """Decides who runs.  Records every non-default decision in self.switches as
    [tid, nth_yield_of_tid, target]; nth == -1 means 'when tid finished',
    tid == -1 means 'initial thread'."""
    name = 'base'

    def __init__(self):
        self.switches = []

    def start(self, runnable):
        t = self._start(runnable)
        if t != runnable[0]:
            self.switches.append([-1, 0, t])
        return t

    def at_yield(self, tid, n, others, step):
        t = self._yield(tid, n, others, step)
        if t != tid:
            self.switches.append([tid, n, t])
        return t

    def at_finish(self, tid, others):
        t = self._finish(tid, others)
        if t != others[0]:
            self.switches.append([tid, -1, t])
        return t

    def _start(self, runnable):
        return runnable[0]

    def _yield(self, tid, n, others, step):
        return tid

    def _finish(self, tid, others):
        return others[0]

    def describe(self):
        return self.name


class RandomWalk(Decider):
    def __init__(self, rng, p):
        Decider.__init__(self)
        self.rng = rng
        self.p = p
        self.name = 'randomwalk(p=%g)' % p

    def _start(self, runnable):
        return self.rng.choice(runnable)

    def _yield(self, tid, n, others, step):
        if others and self.rng.random() < self.p:
            return self.rng.choice(others)
        return tid

    def _finish(self, tid, others):
        return self.rng.choice(others)


class RoundRobin(Decider):
    def __init__(self, rng, quantum):
        Decider.__init__(self)
        self.q = quantum
        self.left = quantum
        self.name = 'roundrobin(q=%d)' % quantum

    def _yield(self, tid, n, others, step):
        self.left -= 1
        if self.left <= 0:
            self.left = self.q
            if others:
                bigger = [t for t in others if t > tid]
                return bigger[0] if bigger else others[0]
        return tid

    def _finish(self, tid, others):
        self.left = self.q
        bigger = [t for t in others if t > tid]
        return bigger[0] if bigger else others[0]


class PCT(Decider):
    """Priority-based scheduling with d random priority change points
    (Burckhardt et al., 'A randomized scheduler with probabilistic guarantees')."""

    def __init__(self, rng, nthreads, d, horizon):
        Decider.__init__(self)
        pr = list(range(d + 1, d + 1 + nthreads))
        rng.shuffle(pr)
        self.prio = dict(enumerate(pr))
        self.change = sorted(rng.randrange(1, max(2, horizon)) for _ in range(d))
        self.low = d
        self.name = 'pct(d=%d)' % d

    def _best(self, cands):
        return max(cands, key=lambda t: (self.prio[t], -t))

    def _start(self, runnable):
        return self._best(runnable)

    def _yield(self, tid, n, others, step):
        if self.change and step >= self.change[0]:
            self.change.pop(0)
            self.prio[tid] = self.low
            self.low -= 1
        if not others:
            return tid
        return self._best(others + [tid])

    def _finish(self, tid, others):
        return self._best(others)


class Replay(Decider):
    """Recorded schedule.  Missing entries default to: stay on the running
    thread at a yield, lowest-numbered runnable thread at start / finish.  A
    recorded target that is not runnable falls back to the default, so every
    sub-trace (after minimisation) is a well-defined execution."""
    name = 'replay'

    def __init__(self, switches):
        Decider.__init__(self)
        self.table = {}
        for tid, n, tgt in switches:
            self.table[(tid, n)] = tgt

    def _start(self, runnable):
        t = self.table.get((-1, 0))
        return t if t in runnable else runnable[0]

    def _yield(self, tid, n, others, step):
        t = self.table.get((tid, n))
        return t if t is not None and t in others else tid

    def _finish(self, tid, others):
        t = self.table.get((tid, -1))
        return t if t in others else others[0]


def draw_decider(rng, nthreads, horizon=20000):
    """Swarm-style: one strategy per run."""
    if nthreads <= 1:
        return Decider()
    k = rng.randrange(10)
    if k < 4:
        return RandomWalk(rng, rng.choice([0.01, 0.1, 0.5]))
    if k < 7:
        return PCT(rng, nthreads, rng.choice([1, 2, 3]), horizon)
    if k < 9:
        return RoundRobin(rng, rng.choice([1, 7, 50]))
    return RandomWalk(rng, 0.002)


# ---------------------------------------------------------------------------
# scheduler
# ---------------------------------------------------------------------------

class _ThreadTracer(object):
    __slots__ = ('s', 'tid')

    def __init__(self, s, tid):
        self.s = s
        self.tid = tid

    def gtrace(self, frame, event, arg):
        s = self.s
        co = frame.f_code
        fn = co.co_filename
        flag = s._filecache.get(fn)
        if flag is None:
            flag = s._filecache[fn] = bool(s.is_sut_file(fn))
        if not flag:
            return None
        if s.opcode_salt is not None:
            if zlib.crc32((co.co_name + s.opcode_salt).encode()) % s.opcode_mod == 0:
                frame.f_trace_opcodes = True
        return self.ltrace

    def ltrace(self, frame, event, arg):
        if event == 'line' or event == 'opcode':
            self.s._yield(self.tid, frame)
        return self.ltrace


class Sched(object):
    def __init__(self, nthreads, decider, log, is_sut_file, max_steps=2000000,
                 faults=None, stalls=None, opcode_salt=None, opcode_mod=3, instruction_codes=None):
        # instruction_codes: list of SUT code objects -> pre-emption at every bytecode instruction
        # (sys.monitoring INSTRUCTION events, instrumented once before the threads start) instead of
        # at line events (sys.settrace).  No exception faults in that mode.
        self.instruction_codes = instruction_codes
        self.n = nthreads
        self.decider = decider
        self.log = log
        self.is_sut_file = is_sut_file
        self.max_steps = max_steps
        self.faults = faults or {}        # (op_id, nth_line_in_op) -> kind
        self.stalls = sorted(stalls or [])  # [at_step, tid, for_steps]
        self.stalled = {}
        self.opcode_salt = opcode_salt
        self.opcode_mod = opcode_mod
        self._filecache = {}
        self.sems = [threading.Semaphore(0) for _ in range(nthreads)]
        self.done = [False] * nthreads
        self.started = False
        self.current = None
        self.steps = 0
        self.nswitch = 0
        self.ycount = [0] * nthreads
        self.opline = [0] * nthreads
        self.curop = [None] * nthreads
        self.fired = []                  # (kind, op_id, line, file:lineno)
        self.sites = set()
        self.errors = []
        self.all_done = threading.Event()
        self.tracers = [_ThreadTracer(self, t) for t in range(nthreads)]
        self.on_switch = None            # hook(tid_from, tid_to)
        self.on_step = None              # hook(tid, frame) - must be deterministic & cheap
        self.budget_hit = False
        self.lock_waits = 0
        self.blocked = {}
        self._deferred = [None] * nthreads
        self._unsafe = {}

    # -- helpers ----------------------------------------------------------
    def _others(self, tid):
        if self.blocked:
            return [t for t in self._others_raw(tid) if t not in self.blocked]
        return self._others_raw(tid)

    def _others_raw(self, tid):
        st = self.stalled
        if st:
            step = self.steps
            for t in [t for t, u in st.items() if u <= step]:
                del st[t]
            o = [t for t in range(self.n) if t != tid and not self.done[t] and t not in st]
            return o
        return [t for t in range(self.n) if t != tid and not self.done[t]]

    def _yield(self, tid, frame):
        self.steps += 1
        if self.steps > self.max_steps:
            self.budget_hit = True
            raise StepBudgetExceeded()
        n = self.ycount[tid] = self.ycount[tid] + 1
        ol = self.opline[tid] = self.opline[tid] + 1
        if self.on_step is not None:
            self.on_step(tid, frame)
        if self._deferred[tid] is not None and not self._unsafe_point(frame):
            f, self._deferred[tid] = self._deferred[tid], None
            self._fire(f, tid, ol, frame)
        if self.faults:
            f = self.faults.get((self.curop[tid], ol))
            if f is not None and self._unsafe_point(frame):
                # the line event that precedes the implicit __exit__ call of a `with` statement on
                # its normal path lies outside the statement's own exception handler: an exception
                # raised exactly there skips __exit__ (a CPython-level window no library can close).
                # Injecting there would blame the library for it, so the fault moves to the next event.
                self._deferred[tid] = f
                f = None
            if f is not None:
                where = '%s:%d' % (os.path.basename(frame.f_code.co_filename), frame.f_lineno or 0)
                self.fired.append((f, self.curop[tid], ol, where))
                self.log.add('fault', f, tid, self.curop[tid], ol, where)
                if f == 'cancel':
                    raise SimCancelled('cancelled at %s' % where)
                elif f == 'oom':
                    raise MemoryError('simulated allocation failure at %s' % where)
        if self.stalls and self.steps >= self.stalls[0][0]:
            _, st_tid, st_for = self.stalls.pop(0)
            self.stalled[st_tid] = self.steps + st_for
            self.log.add('stall', st_tid, st_for)
        if self.n == 1:
            return
        others = self._others(tid)
        if tid in self.stalled and others:
            tgt = self.decider.at_yield(tid, n, others, self.steps)
            if tgt == tid:
                tgt = others[0]
                self.decider.switches.append([tid, n, tgt])
        else:
            tgt = self.decider.at_yield(tid, n, others, self.steps)
        if tgt != tid:
            self._switch(tid, tgt, frame)

    def _fire(self, f, tid, ol, frame):
        where = '%s:%d' % (os.path.basename(frame.f_code.co_filename), frame.f_lineno or 0)
        self.fired.append((f, self.curop[tid], ol, where))
        self.log.add('fault', f, tid, self.curop[tid], ol, where)
        if f == 'cancel':
            raise SimCancelled('cancelled at %s' % where)
        elif f == 'oom':
            raise MemoryError('simulated allocation failure at %s' % where)

    def _unsafe_point(self, frame):
        code = frame.f_code
        u = self._unsafe.get(code)
        if u is None:
            u = self._unsafe[code] = _with_exit_offsets(code)
        if frame.f_lasti in u:
            return True
        # inside clean-up code of the system under test (this frame or a caller's)?
        f = frame
        depth = 0
        while f is not None and depth < 40:
            fn = f.f_code.co_filename
            flag = self._filecache.get(fn)
            if flag is None:
                flag = self._filecache[fn] = bool(self.is_sut_file(fn))
            if flag and (f.f_lineno or 0) in cleanup_lines(fn):
                return True
            f = f.f_back
            depth += 1
        return False

    def unblock(self, resource):
        """a lock / semaphore / event / condition of the system under test was released or signalled"""
        for t in [t for t, r in self.blocked.items() if r is resource]:
            del self.blocked[t]

    def _blocked_on_lock(self, tid, frame, resource=None):
        """tid (holding the baton) must wait for a synchronisation object of the system under test: it
        is not runnable until that object is released / signalled (resource given) or, for timed waits
        (resource None), merely yields.  Somebody else runs; on return the caller retries."""
        if resource is not None:
            self.blocked[tid] = resource
        others = [t for t in range(self.n) if t != tid and not self.done[t] and t not in self.blocked]
        if not others:
            self.blocked.pop(tid, None)
            raise RuntimeError('dead-lock in the system under test: thread %d waits for a lock / event that no '
                               'runnable thread can release' % tid)
        self.lock_waits += 1
        if self.lock_waits > 2000000:
            self.blocked.pop(tid, None)
            raise RuntimeError('live-lock in the system under test on a synchronisation object')
        n = self.ycount[tid] = self.ycount[tid] + 1
        tgt = self.decider.at_yield(tid, n, others, self.steps)
        if tgt == tid:
            tgt = others[self.lock_waits % len(others)]
            self.decider.switches.append([tid, n, tgt])
        self.log.add('lockwait', tid, tgt)
        self._switch(tid, tgt, frame)
        self.blocked.pop(tid, None)

    def _switch(self, tid, tgt, frame):
        site = (os.path.basename(frame.f_code.co_filename), frame.f_lineno or 0)
        self.sites.add(site)
        self.nswitch += 1
        self.log.add('sw', tid, tgt, site[0], site[1])
        if self.on_switch is not None:
            self.on_switch(tid, tgt)
        self.current = tgt
        self.sems[tgt].release()
        self.sems[tid].acquire()

    # -- API for thread bodies ---------------------------------------------
    def begin_op(self, tid, op_id):
        self.curop[tid] = op_id
        self.opline[tid] = 0
        self._deferred[tid] = None
        if self.instruction_codes is None:
            sys.settrace(self.tracers[tid].gtrace)   # (re-)arm: an injected exception unsets it

    def end_op(self, tid):
        if self.instruction_codes is None:
            sys.settrace(None)
        self.curop[tid] = None

    def _instr_cb(self, code, offset):
        name = threading.current_thread().name
        if not name.startswith('sim-'):
            return
        tid = int(name[4:])
        if self.curop[tid] is None or tid != self.current:
            return
        self._yield(tid, sys._getframe(1))

    def _arm_instruction_mode(self):
        mon = sys.monitoring
        try:
            mon.use_tool_id(MON_TOOL, 'detsim')
        except ValueError:
            pass
        for c in self.instruction_codes:
            mon.set_local_events(MON_TOOL, c, mon.events.INSTRUCTION)
        mon.register_callback(MON_TOOL, mon.events.INSTRUCTION, self._instr_cb)

    def _disarm_instruction_mode(self):
        mon = sys.monitoring
        mon.register_callback(MON_TOOL, mon.events.INSTRUCTION, None)
        for c in self.instruction_codes:
            mon.set_local_events(MON_TOOL, c, 0)

    # -- run --------------------------------------------------------------
    def _thread_main(self, tid, body):
        self.sems[tid].acquire()
        try:
            body(tid)
        except BaseException as e:   # harness bug inside a body
            import traceback
            self.errors.append('thread %d: %s' % (tid, traceback.format_exc()))
        finally:
            sys.settrace(None)
            self.done[tid] = True
            others = [t for t in range(self.n) if not self.done[t] and t not in self.blocked] or \
                [t for t in range(self.n) if not self.done[t]]
            if others:
                tgt = self.decider.at_finish(tid, others)
                self.log.add('fin', tid, tgt)
                self.current = tgt
                self.sems[tgt].release()
            else:
                self.log.add('fin', tid, -1)
                self.all_done.set()

    def run(self, bodies, wall_timeout=120):
        assert len(bodies) == self.n
        threads = [threading.Thread(target=self._thread_main, args=(t, bodies[t]),
                                    name='sim-%d' % t, daemon=True) for t in range(self.n)]
        for th in threads:
            th.start()
        ACTIVE[0] = self
        if self.instruction_codes is not None:
            self._arm_instruction_mode()
        first = self.decider.start(list(range(self.n)))
        self.log.add('start', first)
        self.current = first
        self.sems[first].release()
        finished = self.all_done.wait(wall_timeout)
        ACTIVE[0] = None
        if self.instruction_codes is not None and finished:
            self._disarm_instruction_mode()
        if not finished:
            raise RuntimeError('simulated threads did not finish within %ss (harness hang)' % wall_timeout)
        for th in threads:
            th.join(5)
        if self.errors:
            raise RuntimeError('error inside simulated thread body:\n' + '\n'.join(self.errors))
