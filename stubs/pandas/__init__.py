"""Import-only stand-in for pandas (not installed, not in the offline wheelhouse).

geodepy.gnss does `import pandas as pd` at module top; none of the functions the
C18 check exercises touch it (only list_sinex_blocks / read_rinex-style helpers
do).  Any attribute access raises, so accidental use is loud, not silent.
"""


def __getattr__(name):
    raise AttributeError(
        "pandas stub (verif): attribute %r requested - pandas is not available "
        "in this sandbox; code reaching this is outside the simulated system" % name)
