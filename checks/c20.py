"""C20 - the HTTP API returns exactly what the library computes.

Deterministic simulation of the one multi-party surface: 1..6 simulated HTTP
clients (baton threads) drive the real Flask app through the in-process WSGI
transport; handlers are pre-empted at line events inside api/app.py and
geodepy/*.  Transport faults: duplicate delivery (possibly concurrent, from
another client thread), reordering / delay (stalls), client abort (cancellation
injected inside the handler), retry after abort.  Oracle: every delivered,
non-aborted response is attributed to its request and compared with the library
evaluated for the same arguments in a pristine forked process.
"""
import os
import random
import sys

from detsim import kernel
from detsim.kernel import EventLog, jdump, short_hash
from detsim.sched import Sched, SimCancelled, StepBudgetExceeded, Replay, RoundRobin, draw_decider, Decider, wrap_module_locks, sut_code_objects
from checks.common import CheckBase

RUN_STEP_BUDGET = 600000


def r_hp(rng, maxdeg):
    if rng.random() < 0.05:
        return rng.choice([2.5e-05, -2.5e-05, 5e-06, 0.0])      # HP values below one arc-second
    if rng.random() < 0.08:
        # HP corner values: whole degrees / minutes, just below a whole degree or minute, between 0 and -1 degree
        d = rng.randrange(0, maxdeg)
        return rng.choice([float(d), d + 0.3, d + 0.5959, d + 0.59599999, d + 0.2959999, -0.3, -0.0001, -(d + 0.5959999), d + 0.0001])
    d = rng.randrange(0, maxdeg + 1)
    m = rng.randrange(0, 60)
    s = round(rng.uniform(0, 59.9999), rng.choice([0, 1, 3, 4]))
    if s >= 60:
        s = 59.0
    hp = float('%d.%02d%s' % (d, m, ('%07.4f' % s).replace('.', '')))
    return -hp if rng.random() < 0.5 else hp


def r_dec(rng, maxdeg):
    if rng.random() < 0.06:
        # tiny magnitudes: repr() of these floats uses exponent notation ('5e-05')
        return rng.choice([5e-05, -2.5e-05, 1e-07, -9.9e-05, 3.3e-06, 0.0, -0.0])
    k = rng.randrange(3)
    x = rng.uniform(-maxdeg, maxdeg)
    if k == 0:
        x = round(x, 3)
    elif k == 1:
        x = round(x, 9)
    return x


class C20(CheckBase):
    id = 'C20'
    title = 'The HTTP API returns exactly what the library computes'
    quick_runs = 800
    thorough_runs = 30000 + 2 * 16 * 361
    quick_budget_s = 60
    thorough_budget_s = 1200
    run_timeout = 150
    required_probes = ['two_handlers_in_flight_different_angle_types', 'abort_inside_geodepy', 'abort_inside_app_py',
                       'duplicate_delivered_concurrently', 'near_repeat_request', 'negative_hp_input']
    components = {
        'real': ['api.app (Flask app, three routes)', 'Flask', 'Werkzeug (routing, request parsing, test client = in-process WSGI call)',
                 'geodepy.geodesy.vincinv / vincdir', 'geodepy.angles.hp2dec / dec2hp'],
        'simulated': ['HTTP clients (baton threads under the seeded scheduler; pre-emption inside api/app.py and geodepy/*)',
                      'transport faults: duplicate delivery, reordering/stall, client abort inside the handler, retry'],
        'stub': ['sockets: the transport is the in-process WSGI call of werkzeug.test.Client (no network)'],
    }
    assumptions = [
        'query values are sent as repr(float) so the server parses exactly the float the reference uses',
        'requests whose library call raises in the pristine reference (e.g. invalid HP input, non-converging geometry) are outside what the statement promises: skipped and counted',
        'pre-emption happens at line events in api/app.py and geodepy/* only; Flask/Werkzeug internals run un-pre-empted',
    ]
    rule = ('run = 5..40 unique requests over /vincinv, /vincdir, / with every (from_angle_type, to_angle_type) in {dd, dms, absent}^2, '
            'delivered by 1..6 simulated clients under a seeded schedule with transport faults; non-trivial = >= 2 deliveries judged; '
            'distinct = sha256 of (per-client (endpoint, from, to) sequences, (pre-empted handler -> resumed handler) pairs at switches, fault kinds fired)')
    simulated_time_note = 'no timers in this system; time is scheduler steps (line events), see counters.steps'

    def setup_process(self):
        import api.app as appmod
        import geodepy.geodesy as geodesy
        import geodepy.angles as angles
        self.appmod = appmod
        self.app = appmod.app
        self.geodesy, self.angles = geodesy, angles
        self.repo_prefix = kernel.REPO + os.sep
        self.app.testing = False
        self.app.config['PROPAGATE_EXCEPTIONS'] = False
        import logging
        self.app.logger.disabled = True
        logging.getLogger('werkzeug').disabled = True
        self.rules = sorted(r.rule for r in self.app.url_map.iter_rules() if r.endpoint != 'static')
        self.sut_codes = sut_code_objects([m for n, m in sorted(sys.modules.items())
                                            if m is not None and (n == 'api.app' or n == 'geodepy' or n.startswith('geodepy.'))])
        # locks owned by the system under test must never block the baton holder
        self.wrapped_locks = wrap_module_locks([m for n, m in sorted(sys.modules.items())
                                                if m is not None and (n == 'api.app' or n == 'geodepy' or n.startswith('geodepy.'))])

    def is_sut_file(self, fn):
        return fn.startswith(self.repo_prefix)

    # ---------------------------------------------------------------- generate
    def gen_request(self, rng, rid):
        ep = rng.choice(['vincinv', 'vincinv', 'vincdir', 'vincdir', 'index']) if rng.random() < 0.97 else 'index'
        if ep == 'index':
            return {'rid': rid, 'ep': 'index', 'from': None, 'to': None, 'params': {'n': str(rid)}}
        fa = rng.choice(['dd', 'dms', None])
        ta = rng.choice(['dd', 'dms', None])
        ang = (lambda m: r_hp(rng, m)) if fa == 'dms' else (lambda m: r_dec(rng, m))
        if ep == 'vincinv':
            lat1, lon1 = ang(rng.choice([85, 85, 89])), ang(179)
            if rng.random() < 0.5:      # short line near point 1
                lat2 = lat1 + (round(rng.uniform(-0.3, 0.3), 4) if fa != 'dms' else round(rng.uniform(-0.2, 0.2), 2))
                lon2 = lon1 + (round(rng.uniform(-0.3, 0.3), 4) if fa != 'dms' else round(rng.uniform(-0.2, 0.2), 2))
            else:
                lat2, lon2 = ang(85), ang(179)
            k = rng.random()
            if k < 0.12:
                lon2 = lon1            # same meridian (azimuths exactly 0 / 180 / 360)
            elif k < 0.18:
                lat2 = lat1            # same parallel
            elif k < 0.21:
                lat2, lon2 = lat1, lon1
            elif k < 0.27 and fa != 'dms':
                # nearly antipodal points: the longest lines, hundreds of iterations in the library
                d = rng.choice([1.0, 0.5, 0.1, 0.02])
                lat2 = round(-lat1 + rng.uniform(-d, d), 6)
                lon2 = lon1 + 180.0 if lon1 < 0 else lon1 - 180.0
                lon2 = round(max(-179.999, min(179.999, lon2 + rng.uniform(-d, d))), 6)
            p = {'lat1': lat1, 'lon1': lon1, 'lat2': lat2, 'lon2': lon2}
        else:
            az = abs(ang(359)) if rng.random() < 0.85 else ang(359)
            if rng.random() < 0.15:
                az = rng.choice([0.0, 90.0, 180.0, 270.0, 360.0])     # cardinal azimuths (same digits in dd and HP)
            lat1, lon1 = ang(rng.choice([85, 85, 89])), ang(179)
            if rng.random() < 0.15:
                # round coordinates: multiples of 0.05 / 0.25 degrees (HP: whole minutes)
                lat1 = rng.choice([-1, 1]) * rng.randrange(0, 80) + rng.choice([0.0, 0.25, 0.5, 0.75, 0.05, 0.3, 0.45])
                lon1 = rng.choice([-1, 1]) * rng.randrange(0, 179) + rng.choice([0.0, 0.25, 0.5, 0.75, 0.05, 0.3, 0.45])
            p = {'lat1': lat1, 'lon1': lon1, 'azimuth1to2': az,
                 'ell_dist': rng.choice([round(rng.uniform(1, 2e6), 3), 54972.271, float(rng.randrange(1, 100000)), 0.001, 1.9e7, 0.0])}
        return {'rid': rid, 'ep': ep, 'from': fa, 'to': ta, 'params': dict((k, repr(float(v))) for k, v in p.items())}

    REQ_TYPES = [('index', None, None)] + [(ep, fa, ta) for ep in ('vincinv', 'vincdir') for fa in ('dd', 'dms', None)
                                            for ta in ('dd', 'dms', None)]
    N_PAIR_SWEEP = len(REQ_TYPES) ** 2

    def _typed_request(self, rng, rid, typ):
        ep, fa, ta = typ
        for _ in range(200):
            r = self.gen_request(rng, rid)
            if r['ep'] == ep:
                break
        if ep == 'index':
            return {'rid': rid, 'ep': 'index', 'from': None, 'to': None, 'params': {'n': str(rid)}}
        # regenerate the arguments in the requested input notation
        saved = rng.getstate()
        for _ in range(400):
            r = self.gen_request(rng, rid)
            if (r['ep'], r['from']) == (ep, fa):
                r['to'] = ta
                return r
        rng.setstate(saved)
        r['from'], r['to'] = fa, ta
        return r

    def _pair_trace(self, rng, j):
        """Systematic part (both tiers): every ordered pair of request types (endpoint x from x to, plus the
        index route) served by two clients: A and B overlap under a seeded schedule, then both are repeated."""
        ta, tb = self.REQ_TYPES[j // len(self.REQ_TYPES)], self.REQ_TYPES[j % len(self.REQ_TYPES)]
        ra, rb = self._typed_request(rng, 0, ta), self._typed_request(rng, 1, tb)
        ops = [{'id': 0, 'req': 0, 'client': 0, 'abort': None}, {'id': 1, 'req': 1, 'client': 1, 'abort': None},
               {'id': 2, 'req': 1, 'client': 0, 'abort': None, 'dup': True}, {'id': 3, 'req': 0, 'client': 1, 'abort': None, 'dup': True}]
        return {'property': 'C20', 'threads': 2, 'requests': [ra, rb], 'ops': ops, 'faults': [],
                'sched': {'mode': 'rng', 'seed': rng.getrandbits(64)}, 'switches': [], 'shuffle_seed': rng.getrandbits(32),
                'pair_sweep': True, 'granularity': 'instr' if rng.random() < 0.5 else 'line'}

    N_RANDOM_THOROUGH = 30000
    N_PREEMPT_POINTS = 16

    def _preempt_trace(self, rng, j):
        """thorough tier: every ordered pair of request types, client 0 stopped `frac` of the way through its
        handler, client 1 then served completely (single) or up to the same point of its own handler (diag)"""
        point, rest = j % self.N_PREEMPT_POINTS, j // self.N_PREEMPT_POINTS
        diag, pair = rest % 2, rest // 2
        tr = self._pair_trace(rng, pair % self.N_PAIR_SWEEP)
        tr['ops'] = tr['ops'][:2]
        tr['sched'] = {'mode': 'preempt', 'frac': (point + 0.5) / self.N_PREEMPT_POINTS, 'diag': bool(diag)}
        tr['granularity'] = 'line'
        return tr

    def generate(self, rng, i, tier):
        if i < self.N_PAIR_SWEEP:
            return self._pair_trace(rng, i)
        if tier == 'thorough' and i >= self.N_RANDOM_THOROUGH:
            return self._preempt_trace(rng, i - self.N_RANDOM_THOROUGH)
        T = rng.choice([1, 2, 2, 3, 3, 4, 5, 6])
        nreq = rng.choice([5, 8, 12, 20, 30, 40])
        reqs = []
        for rid in range(nreq):
            if reqs and rng.random() < 0.25:
                src = rng.choice([r for r in reqs])
                if src['ep'] != 'index':
                    r = {'rid': rid, 'ep': src['ep'], 'from': src['from'], 'to': src['to'], 'params': dict(src['params']),
                         'near_repeat_of': src['rid']}
                    k = rng.random()
                    if k < 0.5:
                        name = rng.choice(sorted(r['params']))
                        v = float(r['params'][name])
                        if src['from'] == 'dms' and name != 'ell_dist':
                            v = v + rng.choice([1e-6, -1e-6, 1e-4])     # one more 0.01" / 1" in HP notation
                        else:
                            v = v + rng.choice([1e-9, -1e-9, 1e-7, 1e-5, 0.001])
                        r['params'][name] = repr(v)
                    elif k < 0.75:
                        r['to'] = rng.choice([x for x in ['dd', 'dms', None] if x != src['to']])
                    else:
                        # same digits, other input notation (valid HP digits are also valid decimals)
                        r['from'] = rng.choice([x for x in ['dd', 'dms', None] if x != src['from']])
                    reqs.append(r)
                    continue
            reqs.append(self.gen_request(rng, rid))
        ops = []
        oid = 0
        fault_run = rng.random() < 0.5
        for r in reqs:
            ops.append({'id': oid, 'req': r['rid'], 'client': rng.randrange(T), 'abort': None, 'order': rng.random()})
            oid += 1
            if fault_run:
                k = rng.random()
                if k < 0.15:      # duplicate delivery (maybe by another client thread, maybe concurrently)
                    first = ops[-1]
                    ops.append({'id': oid, 'req': r['rid'], 'client': rng.randrange(T), 'abort': None,
                                'order': first['order'] + rng.uniform(-0.02, 0.05), 'dup': True})
                    oid += 1
                    if rng.random() < 0.4:
                        # ... while the first delivery is aborted part-way (client gave up), then retried
                        first['abort'] = round(rng.random(), 4)
                        ops.append({'id': oid, 'req': r['rid'], 'client': first['client'], 'abort': None,
                                    'order': first['order'] + rng.random() * 0.3, 'retry': True})
                        oid += 1
                elif k < 0.3:     # client aborts inside the handler, then retries
                    ops[-1]['abort'] = round(rng.random(), 4)
                    ops.append({'id': oid, 'req': r['rid'], 'client': ops[-1]['client'], 'abort': None, 'order': ops[-1]['order'] + rng.random() * 0.3,
                                'retry': True})
                    oid += 1
        ops.sort(key=lambda o: (o['order'], o['id']))    # delivery order within a client = reordering / delay
        for o in ops:
            o.pop('order')
        faults = []
        if fault_run and T > 1 and rng.random() < 0.5:
            faults.append({'kind': 'stall', 'thread': rng.randrange(T), 'at': rng.randrange(1, 2000), 'for': rng.choice([100, 1000, 10000])})
        return {'property': 'C20', 'threads': T, 'requests': reqs, 'ops': ops, 'faults': faults,
                'sched': {'mode': 'rng', 'seed': rng.getrandbits(64)}, 'switches': [],
                'shuffle_seed': rng.getrandbits(32),
                'granularity': 'instr' if T > 1 and not fault_run and len(ops) <= 20 and rng.random() < 0.4 else 'line'}

    # ------------------------------------------------------------- references
    def _ref_child(self, req):
        """what the library returns for the same arguments (pristine process)"""
        A, G = self.angles, self.geodesy
        try:
            if req['ep'] == 'index':
                return {'status': 'index'}
            dd = A.hp2dec if req['from'] == 'dms' else (lambda x: x)
            out = A.dec2hp if req['to'] == 'dms' else (lambda x: x)
            p = dict((k, float(v)) for k, v in req['params'].items())
            if req['ep'] == 'vincinv':
                r = G.vincinv(dd(p['lat1']), dd(p['lon1']), dd(p['lat2']), dd(p['lon2']))
                body = {'ell_dist': r[0], 'azimuth1to2': out(r[1]), 'azimuth2to1': out(r[2])}
            else:
                r = G.vincdir(dd(p['lat1']), dd(p['lon1']), dd(p['azimuth1to2']), p['ell_dist'])
                body = {'lat2': out(r[0]), 'lon2': out(r[1]), 'azimuth2to1': out(r[2])}
            import json
            # the value a client sees after JSON transport of these Python numbers
            body = json.loads(json.dumps(body))
            return {'status': 'ok', 'body': body}
        except Exception as e:
            return {'status': 'raises', 'exc': type(e).__name__}

    def compute_refs(self, trace):
        refs = {}
        for r in trace['requests']:
            key = jdump([r['ep'], r['from'], r['to'], r['params']])
            if key in refs:
                continue
            st, payload = kernel.run_isolated(self._ref_child, r, 30)
            if st != 'ok':
                raise kernel.HarnessError('reference evaluation failed: %s %s' % (st, str(payload)[:500]))
            refs[key] = payload
        return refs

    @staticmethod
    def _url(req, rnd):
        if req['ep'] == 'index':
            return '/?n=' + req['params']['n']
        items = list(req['params'].items())
        if req['from'] is not None:
            items.append(('from_angle_type', req['from']))
        if req['to'] is not None:
            items.append(('to_angle_type', req['to']))
        rnd.shuffle(items)
        from urllib.parse import urlencode
        return '/%s?%s' % (req['ep'], urlencode(items))

    # ---------------------------------------------------------------- execute
    def execute(self, trace):
        log = EventLog()
        T = trace['threads']
        reqs = dict((r['rid'], r) for r in trace['requests'])
        ops = [o for o in trace['ops'] if o['req'] in reqs]
        viol = []
        stats = {}

        def bump(k, n=1):
            stats[k] = stats.get(k, 0) + n

        def V(oracle, site, detail):
            viol.append({'oracle': oracle, 'site': site, 'detail': detail})
            log.add('V', oracle, site)

        refs = self.compute_refs(trace)
        sm = trace['sched']['mode']
        if sm == 'rng':
            decider = draw_decider(random.Random(trace['sched']['seed']), T, horizon=8000)
        elif sm == 'rr':
            decider = RoundRobin(None, trace['sched'].get('q', 1)) if T > 1 else Decider()
        elif sm == 'preempt':
            r0 = reqs[ops[0]['req']]
            L = self._count_lines(r0, trace) if ops else 0
            pnt = 1 + int(trace['sched']['frac'] * max(L, 1))
            decider = Replay([[ops[0]['client'] % T, pnt, ops[1]['client'] % T]] +
                             ([[ops[1]['client'] % T, pnt, ops[0]['client'] % T]] if trace['sched'].get('diag') else [])) if len(ops) > 1 and T > 1 else Decider()
        else:
            decider = Replay(trace.get('switches', []))
        # abort faults are placed with the handler's line count measured un-pre-empted
        stalls = [[f['at'], f['thread'], f['for']] for f in trace.get('faults', []) if f['kind'] == 'stall' and f['thread'] < T]
        fault_map = {}
        lines_of = {}
        for o in ops:
            if o.get('abort') is not None:
                r = reqs[o['req']]
                key = jdump([r['ep'], r['from'], r['to'], r['params']])
                if key not in lines_of:
                    lines_of[key] = self._count_lines(r, trace)
                n = lines_of[key]
                if n >= 1:
                    fault_map[(o['id'], min(n, 1 + int(o['abort'] * n)))] = 'cancel'
        instr = trace.get('granularity') == 'instr' and not fault_map
        sched = Sched(T, decider, log, self.is_sut_file, max_steps=RUN_STEP_BUDGET * (2 if instr else 1), faults=fault_map, stalls=stalls,
                      instruction_codes=self.sut_codes if instr else None)
        if instr:
            bump('instruction_granularity_runs')
        per_thread = [[o for o in ops if o['client'] % T == t] for t in range(T)]
        log.add('cfg', T, len(ops), decider.describe(), sorted(fault_map.items()), stalls)
        cur = [None] * T
        switch_seq = []
        probe = {'diff_types': 0, 'dup_conc': 0}

        def on_switch(a, b):
            ra, rb = cur[a], cur[b]
            if ra is not None and rb is not None:
                switch_seq.append(((ra['ep'], ra['from'], ra['to']), (rb['ep'], rb['from'], rb['to'])))
                if ra['ep'] != 'index' and rb['ep'] != 'index' and (ra['from'], ra['to']) != (rb['from'], rb['to']):
                    probe['diff_types'] += 1
                if ra['rid'] == rb['rid']:
                    probe['dup_conc'] += 1

        sched.on_switch = on_switch
        bodies = {}
        judged = [0]
        clients = [self.app.test_client() for _ in range(T)]
        rnd = random.Random(trace.get('shuffle_seed', 0))
        # a duplicate / retry is a retransmission: byte-identical URL per request, not per delivery
        url_of_req = dict((rid, self._url(reqs[rid], rnd)) for rid in sorted(reqs))
        urls = dict((o['id'], url_of_req[o['req']]) for o in ops)

        def deliver(tid, o):
            r = reqs[o['req']]
            key = jdump([r['ep'], r['from'], r['to'], r['params']])
            ref = refs[key]
            url = urls[o['id']]
            cur[tid] = r
            log.add('req+', tid, o['id'], url)
            status = 'ok'
            resp = None
            sched.begin_op(tid, o['id'])
            try:
                try:
                    resp = clients[tid].get(url)
                finally:
                    sched.end_op(tid)
            except SimCancelled:
                status = 'aborted'
            except StepBudgetExceeded:
                status = 'budget'
            except Exception as e:
                status = 'transport-raised'
                resp = e
            cur[tid] = None
            injected = any(f[1] == o['id'] for f in sched.fired)
            if status == 'ok' and injected:
                status = 'abort-absorbed'    # the server turned the cancellation into a response (e.g. 500)
            bump('deliveries_' + status)
            if status != 'ok':
                log.add('req-', tid, o['id'], status)
                if status == 'budget' and not instr:
                    # bounded liveness: once faults stop every request must be answered within the run's
                    # step budget (1.5 million line events for at most ~60 requests of a few hundred each)
                    V('no-answer-within-step-budget', r['ep'], {'url': url, 'steps': sched.steps})
                if status == 'transport-raised':
                    V('transport-raised', r['ep'], {'url': url, 'exc': type(resp).__name__, 'msg': str(resp)[:300]})
                return
            code = resp.status_code
            data = resp.get_data()
            log.add('req-', tid, o['id'], code, short_hash(data, 16))
            combo = '%s/from=%s/to=%s' % (r['ep'], r['from'] or 'absent', r['to'] or 'absent')
            if r['ep'] == 'index':
                judged[0] += 1
                text = data.decode('utf-8', 'replace')
                if code != 200:
                    V('status', 'index', {'url': url, 'status': code})
                missing = [p for p in self.rules if ("'%s'" % p) not in text and ('"%s"' % p) not in text]
                if missing:
                    V('index-lists-every-endpoint', 'index', {'missing': missing, 'body': text[:300]})
                return
            if ref['status'] != 'ok':
                bump('skipped_library_raises_in_reference')
                return
            judged[0] += 1
            if code != 200:
                V('status', combo, {'url': url, 'status': code, 'body': data[:200].decode('utf-8', 'replace')})
                return
            try:
                body = resp.get_json()
            except Exception as e:
                body = None
            want = ref['body']
            if not isinstance(body, dict):
                V('json-body', combo, {'url': url, 'body': data[:200].decode('utf-8', 'replace')})
                return
            if sorted(body) != sorted(want):
                V('json-keys', combo, {'url': url, 'got': sorted(body), 'want': sorted(want)})
                return
            for k in sorted(want):
                a, b = body[k], want[k]
                if not (a == b and type(a) is type(b)) and not (a == b and isinstance(a, (int, float)) and isinstance(b, (int, float))):
                    V('value-differs-from-library', '%s/%s' % (combo, k),
                      {'url': url, 'field': k, 'got': a, 'library': b, 'client': tid, 'clients': T})
                    break
            prev = bodies.get(o['req'])
            if prev is not None and prev != data:
                V('duplicate-bodies-differ', combo, {'url': url, 'first': prev[:200].decode(), 'second': data[:200].decode()})
            bodies[o['req']] = data

        def body(tid):
            for o in per_thread[tid]:
                deliver(tid, o)

        try:
            sched.run([body] * T, wall_timeout=self.run_timeout - 15)
        except RuntimeError as e:
            raise kernel.HarnessError(str(e))
        for f in sched.fired:
            bump('fault:abort')
            if f[3].startswith('app.py'):
                bump('probe:abort_inside_app_py')
            else:
                bump('probe:abort_inside_geodepy')
        if len(stalls) - len(sched.stalls) > 0:
            bump('fault:stall', len(stalls) - len(sched.stalls))
        ndup = sum(1 for o in ops if o.get('dup'))
        if ndup:
            bump('fault:duplicate_delivery', ndup)
        nretry = sum(1 for o in ops if o.get('retry'))
        if nretry:
            bump('fault:retry_after_abort', nretry)
        if probe['diff_types']:
            bump('probe:two_handlers_in_flight_different_angle_types')
        if probe['dup_conc']:
            bump('probe:duplicate_delivered_concurrently')
        if trace.get('pair_sweep'):
            bump('pair_sweep_runs')
        if any('near_repeat_of' in r for r in trace['requests']):
            bump('probe:near_repeat_request')
        if any(r['from'] == 'dms' and any(v.startswith('-') for v in r['params'].values()) for r in trace['requests']):
            bump('probe:negative_hp_input')
        bump('steps', sched.steps)
        bump('context_switches', sched.nswitch)
        bump('deliveries_total', len(ops))
        bump('judged', judged[0])
        seqs = [[(reqs[o['req']]['ep'], reqs[o['req']]['from'], reqs[o['req']]['to']) for o in lst] for lst in per_thread]
        sig = short_hash([seqs, switch_seq, sorted(set(f[0] for f in sched.fired)), ndup > 0], 20)
        recorded = dict(trace)
        recorded['sched'] = {'mode': 'replay', 'strategy': decider.describe()}
        recorded['switches'] = decider.switches if sm != 'replay' else trace.get('switches', [])
        sample = {'clients': T, 'strategy': decider.describe(), 'deliveries': [[o['client'] % T, urls[o['id']], o.get('abort')] for o in ops[:6]],
                  'n_deliveries': len(ops), 'faults': trace.get('faults', []), 'n_switches': sched.nswitch, 'steps': sched.steps}
        combos = sorted(set('%s/%s/%s' % (r['ep'], r['from'], r['to']) for r in trace['requests']))
        log.add('end', len(viol), sched.steps, sched.nswitch)
        return {'digest': log.digest(), 'violations': viol[:40], 'stats': stats,
                'sets': {'endpoint_angle_combos': combos, 'preemption_sites': sorted('%s:%d' % s for s in sched.sites),
                         'strategies': [decider.describe()]},
                'sig': sig, 'nontrivial': judged[0] >= 2, 'sample': sample, 'recorded': recorded}

    def _count_lines(self, req, trace):
        """line events of one handler invocation, measured in a forked child (so the
        measurement itself cannot disturb the run)"""
        def child(r):
            n = [0]
            cache = {}

            def g(frame, event, arg):
                fn = frame.f_code.co_filename
                f = cache.get(fn)
                if f is None:
                    f = cache[fn] = self.is_sut_file(fn)
                return l if f else None

            def l(frame, event, arg):
                if event == 'line':
                    n[0] += 1
                return l
            c = self.app.test_client()
            url = self._url(r, random.Random(0))
            sys.settrace(g)
            try:
                c.get(url)
            finally:
                sys.settrace(None)
            return n[0]
        st, payload = kernel.run_isolated(child, req, 30)
        if st != 'ok':
            raise kernel.HarnessError('handler line count failed: %s %s' % (st, str(payload)[:300]))
        return payload

    # ---------------------------------------------------------------- shrinking
    def shrink_fields(self, trace):
        return ['faults', 'ops', 'switches']

    def simplify(self, trace):
        T = trace['threads']
        for nt in (1, 2):
            if nt < T:
                t2 = dict(trace)
                t2['threads'] = nt
                t2['switches'] = [s for s in trace.get('switches', []) if s[0] < nt and s[2] < nt]
                yield t2
        used = set(o['req'] for o in trace['ops'])
        if len(used) < len(trace['requests']):
            t2 = dict(trace)
            t2['requests'] = [r for r in trace['requests'] if r['rid'] in used]
            yield t2

    # ----------------------------------------------------------------- canaries
    def canaries(self):
        r0 = {'rid': 0, 'ep': 'vincinv', 'from': 'dms', 'to': 'dd',
              'params': {'lat1': '-37.57037203', 'lon1': '144.25295244', 'lat2': '-37.39101561', 'lon2': '143.55353839'}}
        r1 = {'rid': 1, 'ep': 'vincinv', 'from': 'dd', 'to': 'dms',
              'params': {'lat1': '-37.5', 'lon1': '144.25', 'lat2': '-37.75', 'lon2': '143.5'}}
        base = {'property': 'C20', 'faults': [], 'switches': [], 'shuffle_seed': 1}
        t1 = dict(base, threads=2, requests=[r0, r1], sched={'mode': 'rr', 'q': 3}, canary='handler_caches_conversion_in_module_global',
                  ops=[{'id': 0, 'req': 0, 'client': 0, 'abort': None}, {'id': 1, 'req': 1, 'client': 1, 'abort': None}])
        t2 = dict(base, threads=1, requests=[r1], sched={'mode': 'rr'}, canary='lon_feeds_lat',
                  ops=[{'id': 0, 'req': 1, 'client': 0, 'abort': None}])
        return [('handler that keeps the angle conversion in a module global (needs an interleaving)', t1, ['value-differs-from-library']),
                ('handler that wires lon1 into lat1', t2, ['value-differs-from-library'])]


class C20WithCanary(C20):
    def execute(self, trace):
        can = trace.get('canary')
        if not can:
            return C20.execute(self, trace)
        from checks import c20_canary
        t = dict(trace)
        t.pop('canary')
        saved_app, saved_is, saved_rules = self.app, self.is_sut_file, self.rules
        try:
            self.app = c20_canary.make_app(can)
            self.is_sut_file = lambda fn: saved_is(fn) or fn == c20_canary.__file__
            return C20.execute(self, t)
        finally:
            self.app, self.is_sut_file, self.rules = saved_app, saved_is, saved_rules


CHECK = C20WithCanary()
