"""Toy multi-threaded code for bin/selftest-sync: the scheduler's models of Lock / RLock / Event /
Semaphore / Condition are exercised by code whose outcome is known (conserved sums, hand-offs,
one real lock-order dead-lock).  Lives in the harness; traced like code under test."""
import threading

lock_a = threading.Lock()
lock_b = threading.Lock()
gate = threading.BoundedSemaphore(2)
ready = threading.Event()
cond = threading.Condition()
queue = []
inside = [0, 0]          # currently inside the gate, maximum seen
total = [0]
handed = [None]


def reset():
    del queue[:]
    inside[0] = inside[1] = 0
    total[0] = 0
    handed[0] = None
    ready.clear()


def gated_add(x):
    with gate:
        inside[0] += 1
        if inside[0] > inside[1]:
            inside[1] = inside[0]
        with lock_a:
            t = total[0]
            t = t + x
            total[0] = t
        inside[0] -= 1


def produce(x):
    with cond:
        queue.append(x)
        cond.notify()


def consume():
    with cond:
        while not queue:
            cond.wait()
        return queue.pop(0)


def hand_over(x):
    handed[0] = x
    ready.set()


def take_over():
    ready.wait()
    return handed[0]


def ab():
    with lock_a:
        x = 1
        with lock_b:
            x += 1
    return x


def ba():
    with lock_b:
        x = 1
        with lock_a:
            x += 1
    return x
