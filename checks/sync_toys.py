"""Toy multi-threaded code for bin/selftest-sync: the scheduler's models of Lock / RLock / Event /
Semaphore / Condition are exercised by code whose outcome is known (conserved sums, hand-offs,
one real lock-order dead-lock).  Lives in the harness; traced like code under test."""
import threading

lock_a = threading.Lock()
lock_b = threading.Lock()
gate = threading.BoundedSemaphore(2)
ready = threading.Event()
cond = threading.Condition()
queue = []
inside = [0, 0]          # currently inside the gate, maximum seen
total = [0]
handed = [None]


class Flight(object):
    """a lock used directly AND through a Condition built on it (object attributes, made at import)"""

    def __init__(self):
        self._mutex = threading.Lock()
        self._changed = threading.Condition(self._mutex)
        self.value = None
        self.state = 'idle'

    def run(self, job):
        mine = False
        with self._mutex:
            if self.state == 'idle':
                self.state = 'running'
                mine = True
            else:
                while self.state == 'running':
                    self._changed.wait()
                return self.value
        v = job()
        with self._mutex:
            self.value = v
            self.state = 'landed'
            self._changed.notify_all()
        return v


flight = Flight()


def reset():
    flight.value = None
    flight.state = 'idle'
    lane_stats[0] = lane_stats[1] = 0
    del queue[:]
    inside[0] = inside[1] = 0
    total[0] = 0
    handed[0] = None
    ready.clear()


def gated_add(x):
    with gate:
        inside[0] += 1
        if inside[0] > inside[1]:
            inside[1] = inside[0]
        with lock_a:
            t = total[0]
            t = t + x
            total[0] = t
        inside[0] -= 1


def produce(x):
    with cond:
        queue.append(x)
        cond.notify()


def consume():
    with cond:
        while not queue:
            cond.wait()
        return queue.pop(0)


def hand_over(x):
    handed[0] = x
    ready.set()


def take_over():
    ready.wait()
    return handed[0]


lane = threading.Lock()
lane_stats = [0, 0]          # got the lane, went without


def timed_lane(x):
    got = lane.acquire(timeout=0.05)
    try:
        lane_stats[0 if got else 1] += 1
        t = total[0]
        t = t + x
        return t
    finally:
        if got:
            lane.release()


def ab():
    with lock_a:
        x = 1
        with lock_b:
            x += 1
    return x


def ba():
    with lock_b:
        x = 1
        with lock_a:
            x += 1
    return x
