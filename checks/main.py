"""Entry point: python -m checks.main <id> [options]  (normally via bin/check)."""
import sys
import warnings


def main(argv):
    if not argv:
        print('usage: check <C09|C17|C18|C20> [--tier quick|thorough] [--replay file]')
        return 2
    pid = argv[0].upper()
    warnings.simplefilter('ignore')
    from checks import common
    if pid == 'C09':
        from checks import c09 as mod
    elif pid == 'C17':
        from checks import c17 as mod
    elif pid == 'C18':
        from checks import c18 as mod
    elif pid == 'C20':
        from checks import c20 as mod
    else:
        print('unknown / unclaimed property %s' % pid)
        return 2
    return common.run_check(mod.CHECK, argv[1:])


if __name__ == '__main__':
    sys.exit(main(sys.argv[1:]))
