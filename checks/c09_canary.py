"""Deliberately impure toys for the C09 oracle canary self-test.  They live in
the harness, never in /repo; the scheduler treats this file as pre-emptible so
the same machinery (baton threads, write barrier, argument snapshots, pristine
reference) is what has to flag them."""

_scratch = [0.0]


def racy_scratch(x):
    # module-level scratch reused between calls: sequentially invisible,
    # wrong only when another caller runs between the write and the read
    _scratch[0] = x
    y = 1.0
    y = y + 1.0
    y = y + 1.0
    return _scratch[0] * y


def sorts_argument(lst):
    lst.sort()
    return lst[0]


def touches_constant(x):
    import geodepy.constants as c
    old = c.grs80.semimaj
    c.grs80.semimaj = x          # transient write ...
    r = c.grs80.semimaj * 2
    c.grs80.semimaj = old        # ... restored before returning
    return r


_memo = {}


def coarse_memo(ellipsoid_inversef, lat):
    # memo keyed too coarsely: remembers the first inverse flattening it saw
    if 'f' not in _memo:
        _memo['f'] = 1.0 / ellipsoid_inversef
    return _memo['f'] * lat


_one = [0.0]


def one_line_race(x):
    # write and read of shared state on ONE source line: only instruction-level pre-emption splits it
    _one[0] = x; y = _one[0]
    return y * 2.0
