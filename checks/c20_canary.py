"""Deliberately wrong Flask apps for the C20 oracle canary self-test (harness
side only).  Same routes and JSON shape as api/app.py."""
from flask import Flask, jsonify, request, url_for
from geodepy.geodesy import vincinv, vincdir
from geodepy.convert import hp2dec, dec2hp

_state = {}


def make_app(kind):
    app = Flask('c20_canary_' + kind)
    to_dd = {'dd': lambda x: x, 'dms': hp2dec}
    from_dd = {'dd': lambda x: x, 'dms': dec2hp}

    @app.route('/')
    def list_routes():
        return str(tuple(url_for(rule.endpoint) for rule in app.url_map.iter_rules() if rule.endpoint != 'static'))

    @app.route('/vincinv')
    def handle_vincinv():
        fa = request.args.get('from_angle_type', default='dd')
        ta = request.args.get('to_angle_type', default='dd')
        lat1 = request.args.get('lat1', type=float)
        lon1 = request.args.get('lon1', type=float)
        lat2 = request.args.get('lat2', type=float)
        lon2 = request.args.get('lon2', type=float)
        if kind == 'handler_caches_conversion_in_module_global':
            _state['dd'] = to_dd[fa]            # shared between requests: racy
            _state['out'] = from_dd[ta]
            a = _state['dd'](lat1)
            b = _state['dd'](lon1)
            c = _state['dd'](lat2)
            d = _state['dd'](lon2)
            dist, az12, az21 = vincinv(a, b, c, d)
            return jsonify({'ell_dist': dist, 'azimuth1to2': _state['out'](az12), 'azimuth2to1': _state['out'](az21)}), 200
        dd = to_dd[fa]
        if kind == 'lon_feeds_lat':
            dist, az12, az21 = vincinv(dd(lon1) / 4, dd(lon1), dd(lat2), dd(lon2))
        else:
            dist, az12, az21 = vincinv(dd(lat1), dd(lon1), dd(lat2), dd(lon2))
        out = from_dd[ta]
        return jsonify({'ell_dist': dist, 'azimuth1to2': out(az12), 'azimuth2to1': out(az21)}), 200

    @app.route('/vincdir')
    def handle_vincdir():
        fa = request.args.get('from_angle_type', default='dd')
        ta = request.args.get('to_angle_type', default='dd')
        dd = to_dd[fa]
        lat2, lon2, az21 = vincdir(dd(request.args.get('lat1', type=float)), dd(request.args.get('lon1', type=float)),
                                   dd(request.args.get('azimuth1to2', type=float)), request.args.get('ell_dist', type=float))
        out = from_dd[ta]
        return jsonify({'lat2': out(lat2), 'lon2': out(lon2), 'azimuth2to1': out(az21)}), 200

    return app
