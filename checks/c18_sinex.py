"""Harness-side SINEX 2.02 generator, in-memory solution model with the three
edits, and an independent strict parser for the files geodepy.gnss writes.

Column numbers are 0-based and follow DESIGN.md Appendix B (the same columns the
SINEX 2.02 format description fixes).
"""
import random
import re

TIME_RE = re.compile(r'^\d\d:\d\d\d:\d{5}$')

EST_COMMENT = '*INDEX TYPE__ CODE PT SOLN _REF_EPOCH__ UNIT S __ESTIMATED VALUE____ _STD_DEV___'
MAT_COMMENT = '*PARA1 PARA2 ____PARA2+0__________ ____PARA2+1__________ ____PARA2+2__________'
SITE_COMMENT = '*CODE PT __DOMES__ T _STATION DESCRIPTION__ APPROX_LON_ APPROX_LAT_ _APP_H_'
EPOCH_COMMENT = '*Code PT SOLN T _DATA_START_ __DATA_END__ _MEAN_EPOCH_'
SEP = '*-------------------------------------------------------------------------------'


def fe(v):
    return '%21.14e' % v


def fs(v):
    return '%11.5e' % v


def perturb_spec(spec, seed):
    """the same solution after re-processing: same stations, layout and covariance, other estimates
    (fixed-width fields: the file keeps its size to the byte)"""
    import copy
    r = random.Random(seed)
    out = copy.deepcopy(spec)
    for st in out['stations']:
        st['est'] = [fe(float(v) + r.choice([-1, 1]) * r.uniform(1e-4, 5e-2) * (1.0 if k < 3 else 1e-2))
                     for k, v in enumerate(st['est'])]
    return out


# ---------------------------------------------------------------------------
# spec -> solution model
# ---------------------------------------------------------------------------

def gen_spec(rng):
    nst = rng.choice([1, 1, 2, 2, 3, 3, 4, 5, 6, 8, 10, 12])
    vel = rng.random() < 0.5
    tri = rng.choice(['L', 'U'])
    alphabet = 'ABCDEFGHIJKLMNOPQRSTUVWXYZ0123456789'
    codes = []
    while len(codes) < nst:
        k = rng.random()
        if k < 0.15:
            c = rng.choice(['VLBI', 'VALV', 'V001', 'AVVV', '0006', '0012', '0036', '1800', 'STAV',
                            'VELX', 'VELY', 'VELZ', 'STAX', 'STAY', 'STAZ', 'SITE', 'SOLN', 'COVA', 'ENDS'])
        elif k < 0.3 and codes:
            b = rng.choice(codes)
            c = b[:3] + rng.choice(alphabet)
        else:
            c = ''.join(rng.choice(alphabet) for _ in range(4))
        if rng.random() < 0.08:
            # site codes are case-sensitive four-character strings: 'alic', 'Alic' and 'ALIC' are three stations
            c = c.lower() if rng.random() < 0.6 else c[0] + c[1:].lower()
        if c not in codes:
            codes.append(c)
    stations = []
    # a site code may carry several monuments, told apart by the point code only ('ALIC A' and 'ALIC B' are two
    # stations with their own estimates, and both may have solution number 1)
    twin = rng.choice(codes) if nst >= 2 and rng.random() < 0.12 else None
    if twin is not None:
        codes[rng.choice([i for i, c in enumerate(codes) if c != twin])] = twin
    used_pts = {}
    for c in codes:
        nsol = 1 if rng.random() < 0.75 else rng.choice([2, 3])
        pt = rng.choice([q for q in ['A', 'A', 'A', 'B', 'C'] if q not in used_pts.get(c, ())])
        used_pts.setdefault(c, set()).add(pt)
        lon = [rng.randrange(0, 360), rng.randrange(0, 60), round(rng.uniform(0, 59.9), 1)]
        # latitude as [sign, deg, min, sec]: the sign lives in the degrees field even when deg == 0 ('-0 30 12.0')
        lat = [rng.choice([-1, 1]), rng.choice([0, 0, rng.randrange(0, 90)]) if rng.random() < 0.3 else rng.randrange(0, 90),
               rng.randrange(0, 60), round(rng.uniform(0, 59.9), 1)]
        h = round(rng.uniform(-90, 4000), 1)
        if rng.random() < 0.2:
            h = rng.choice([603.2, 1234.5, -12.3, 9.9, 0.4, 99999.9][:5])
        domes = '%05d%s%03d' % (rng.randrange(10000, 99999), rng.choice('MS'), rng.randrange(1, 999))
        desc = rng.choice(['Melbourne Observatory', 'ALICE SPRINGS AU', 'Mt Stromlo', 'V-site (VIC)', 'x', 'Hobart 26m VLBI'])
        for s in range(1, nsol + 1):
            yy = rng.randrange(94, 100) if rng.random() < 0.3 else rng.randrange(0, 30)
            ep = '%02d:%03d:%05d' % (yy, rng.randrange(1, 366), rng.choice([0, 43200, 86370, rng.randrange(0, 86400)]))
            est = [rng.uniform(-6.4e6, 6.4e6) for _ in range(3)]
            sig = [rng.uniform(1e-4, 5e-2) for _ in range(3)]
            if vel:
                est += [rng.uniform(-0.1, 0.1) for _ in range(3)]
                sig += [rng.uniform(1e-5, 5e-3) for _ in range(3)]
            stations.append({'code': c, 'pt': pt, 'soln': str(s), 'domes': domes, 'tech': 'P', 'desc': desc,
                             'lon': lon, 'lat': lat, 'h': h, 'epoch': ep,
                             'start': '%02d:%03d:%05d' % (yy, 1, 0),
                             'end': '00:000:00000' if rng.random() < 0.15 else '%02d:%03d:%05d' % (yy, 365, 86370),
                             'est': [fe(v) for v in est], 'sig': [fs(v) for v in sig]})
    agencies = ['AUS', 'GA ', 'VIC', 'IGS', 'NGV', 'V6V']
    created = '%02d:%03d:%05d' % (rng.randrange(0, 30), rng.randrange(1, 366), rng.randrange(0, 86400))
    start = created if rng.random() < 0.25 else '%02d:%03d:%05d' % (rng.randrange(0, 30), rng.randrange(1, 366), rng.choice([0, 6, 12, 36, 18, 30]))
    end = '%02d:%03d:%05d' % (rng.randrange(0, 30), rng.randrange(1, 366), rng.choice([0, 86370, 6, 12, 36]))
    return {'agency': rng.choice(agencies), 'data_agency': rng.choice(agencies), 'created': created, 'start': start, 'end': end,
            'technique': rng.choice('PPPCRLDM'), 'constraint': rng.choice('012'), 'velocities': vel, 'triangle': tri,
            'stations': stations, 'cov_seed': rng.getrandbits(48), 'type_major': vel and rng.random() < 0.12,
            'zero_frac': rng.choice([0, 0, 0.3, 0.6, 0.9]), 'cancel_lines': rng.choice([0, 0, 0, 1, 3]),
            'est_comment': rng.random() < 0.8, 'mat_comment': rng.random() < 0.7,
            'comment_block': rng.random() < 0.85, 'reference_block': rng.random() < 0.5,
            'header_trailing': rng.choice(['', '', ' ', '      ']), 'pad_lines': rng.random() < 0.2,
            'extra_blocks': rng.random() < 0.3,
            # comment lines are legal anywhere in a SINEX file: other spellings of the column-header
            # comments (as written by other analysis centres) and extra comment lines inside blocks
            'alt_comments': rng.random() < 0.25, 'inner_comments': rng.choice([0, 0, 0, 1, 2, 5]),
            'inner_seed': rng.getrandbits(32),
            'comments': rng.sample(['* combined solution', '* minimum constraint', 'free text V V V 00006', '*'], rng.randrange(0, 4))}


def cov_matrix(spec):
    """symmetric matrix, values exactly representable through %21.14e; planted exact zeros"""
    n = len(spec['stations']) * (6 if spec['velocities'] else 3)
    r = random.Random(spec['cov_seed'])
    a = [[r.uniform(-1, 1) for _ in range(min(n, 6))] for _ in range(n)]
    m = [[0.0] * n for _ in range(n)]
    zf = spec.get('zero_frac', 0)
    per = 6 if spec['velocities'] else 3
    for i in range(n):
        for j in range(i + 1):
            v = sum(a[i][k] * a[j][k] for k in range(len(a[i]))) * 1e-6
            if i == j:
                v += 1e-6
            elif zf and i // per != j // per and r.random() < zf:
                v = 0.0                      # whole cross-station entries vanish -> all-zero lines
            v = float(fe(v))
            m[i][j] = m[j][i] = v
    # lines that are NOT all-zero although their values cancel: (c, -c, 0) and (c, -c) on one matrix line
    for _ in range(spec.get('cancel_lines', 0)):
        if n < 5:
            break
        c = float(fe(r.uniform(1e-7, 1e-5)))
        if spec['triangle'] == 'L':
            i = r.randrange(3, n)
            j = 3 * r.randrange(0, i // 3)          # a line of row i starts at column j (0-based)
            if j + 2 < i:
                trip = [(i, j, c), (i, j + 1, -c), (i, j + 2, 0.0)]
            else:
                continue
        else:
            i = r.randrange(0, n - 3)
            k = r.randrange(0, (n - i) // 3)
            j = i + 3 * k                           # a line of row i starts at column i + 3k
            if k == 0 or j + 1 >= n:
                continue
            trip = [(i, j, c), (i, j + 1, -c)] + ([(i, j + 2, 0.0)] if j + 2 < n else [])
        for a, b, v in trip:
            m[a][b] = m[b][a] = v
    return m


class Solution(object):
    """the in-memory reference model of a SINEX solution"""

    def __init__(self, spec=None):
        if spec is None:
            return
        self.velocities = spec['velocities']
        self.triangle = spec['triangle']
        self.stations = [dict(s) for s in spec['stations']]
        self.cov = cov_matrix(spec)
        self.per = 6 if self.velocities else 3
        # parameter order in the file: station by station (STAX..VELZ of one station together), or - for
        # solutions with velocities - all positions first, then all velocities ('type-major').  self.cov stays
        # in station order; file_cov() / params() give the file's order.
        self.type_major = bool(spec.get('type_major')) and self.velocities

    def copy(self):
        s = Solution()
        s.velocities, s.triangle, s.per = self.velocities, self.triangle, self.per
        s.type_major = self.type_major
        s.stations = [dict(x) for x in self.stations]
        s.cov = [row[:] for row in self.cov]
        return s

    # -- the three edits, on the model ----------------------------------------
    def remove_stations(self, codes):
        keep_idx = []
        st = []
        for k, s in enumerate(self.stations):
            if s['code'] not in codes:
                st.append(s)
                keep_idx += list(range(k * self.per, (k + 1) * self.per))
        out = self.copy()
        out.stations = [dict(x) for x in st]
        out.cov = [[self.cov[i][j] for j in keep_idx] for i in keep_idx]
        return out

    def remove_velocities(self):
        keep_idx = []
        for k in range(len(self.stations)):
            keep_idx += [k * 6, k * 6 + 1, k * 6 + 2]
        out = self.copy()
        out.velocities = False
        out.type_major = False
        out.per = 3
        for s in out.stations:
            s['est'] = s['est'][:3]
            s['sig'] = s['sig'][:3]
        out.cov = [[self.cov[i][j] for j in keep_idx] for i in keep_idx]
        return out

    def perm(self):
        """file position -> index in station order"""
        n = len(self.stations)
        if not self.type_major:
            return list(range(n * self.per))
        return [k * 6 + t for k in range(n) for t in range(3)] + [k * 6 + t for k in range(n) for t in range(3, 6)]

    def file_cov(self):
        p = self.perm()
        return [[self.cov[i][j] for j in p] for i in p]

    def params(self):
        types = ['STAX', 'STAY', 'STAZ', 'VELX', 'VELY', 'VELZ'][:self.per]
        units = ['m', 'm', 'm', 'm/y', 'm/y', 'm/y']
        out = []
        for s in self.stations:
            for t in range(self.per):
                out.append({'index': 0, 'type': types[t], 'code': s['code'], 'pt': s['pt'], 'soln': s['soln'],
                            'epoch': s['epoch'], 'unit': units[t], 'cons': '2', 'value': float(s['est'][t]),
                            'sigma': float(s['sig'][t]), 'value_str': s['est'][t], 'sigma_str': s['sig'][t]})
        out = [out[i] for i in self.perm()]
        for k, p in enumerate(out):
            p['index'] = k + 1
        return out


# ---------------------------------------------------------------------------
# writer
# ---------------------------------------------------------------------------

def header_line(spec, nparams, velocities):
    return '%%=SNX 2.02 %-3s %s %-3s %s %s %s %05d %s S%s' % (
        spec['agency'], spec['created'], spec['data_agency'], spec['start'], spec['end'], spec['technique'],
        nparams, spec['constraint'], ' V' if velocities else '')


def matrix_lines(cov, tri):
    n = len(cov)
    out = []
    for i in range(n):
        cols = range(0, i + 1) if tri == 'L' else range(i, n)
        cols = list(cols)
        for a in range(0, len(cols), 3):
            chunk = cols[a:a + 3]
            out.append(' %5d %5d ' % (i + 1, chunk[0] + 1) + ' '.join(fe(cov[i][j]) for j in chunk))
    return out


def write_sinex(spec, sol=None):
    sol = sol or Solution(spec)
    L = []
    n = len(sol.stations) * sol.per
    L.append(header_line(spec, n, sol.velocities) + spec.get('header_trailing', ''))
    if spec.get('reference_block'):
        L += [SEP, '+FILE/REFERENCE', ' DESCRIPTION        Geoscience Australia', ' SOFTWARE           V-soft 00006',
              '-FILE/REFERENCE']
    if spec.get('comment_block', True):
        L += [SEP, '+FILE/COMMENT'] + list(spec.get('comments', [])) + ['-FILE/COMMENT']
    L += [SEP, '+SITE/ID', SITE_COMMENT]
    seen = set()
    for s in sol.stations:
        if (s['code'], s['pt']) in seen:
            continue
        seen.add((s['code'], s['pt']))
        lat = s['lat']
        latdeg = ('-%d' % lat[1]) if lat[0] < 0 else ('%d' % lat[1])
        L.append(' %4s %2s %9s %1s %-22s %3d %2d %4.1f %3s %2d %4.1f %7.1f' % (
            s['code'], s['pt'], s['domes'], s['tech'], s['desc'][:22], s['lon'][0], s['lon'][1], s['lon'][2],
            latdeg, lat[2], lat[3], s['h']))
    L += ['-SITE/ID']
    if spec.get('extra_blocks'):
        L += [SEP, '+SITE/RECEIVER', '*SITE PT SOLN T DATA_START__ DATA_END____ DESCRIPTION_________ S/N__ FIRMWARE___']
        for s in sol.stations:
            L.append(' %4s %2s %4s %1s %s %s %-20s %-5s %-11s' % (s['code'], s['pt'], s['soln'], s['tech'], s['start'], s['end'],
                                                                 'LEICA GRX1200GGPRO', '-----', '-----------'))
        L += ['-SITE/RECEIVER']
    L += [SEP, '+SOLUTION/EPOCHS', EPOCH_COMMENT]
    for s in sol.stations:
        L.append(' %4s %2s %4s %1s %s %s %s' % (s['code'], s['pt'], s['soln'], s['tech'], s['start'], s['end'], s['epoch']))
    L += ['-SOLUTION/EPOCHS']
    if spec.get('extra_blocks'):
        # an a-priori block looks exactly like the estimate block (same record layout, other values)
        L += [SEP, '+SOLUTION/APRIORI', EST_COMMENT]
        for p in sol.params():
            L.append(' %5d %-6s %4s %2s %4s %12s %-4s %1s %s %s' % (
                p['index'], p['type'], p['code'], p['pt'], p['soln'], p['epoch'], p['unit'], p['cons'], fe(p['value'] + 0.5), fs(1.0)))
        L += ['-SOLUTION/APRIORI']
    L += [SEP, '+SOLUTION/ESTIMATE']
    if spec.get('est_comment', True):
        L.append(EST_COMMENT)
    for p in sol.params():
        L.append(' %5d %-6s %4s %2s %4s %12s %-4s %1s %s %s' % (
            p['index'], p['type'], p['code'], p['pt'], p['soln'], p['epoch'], p['unit'], p['cons'], p['value_str'], p['sigma_str']))
    L += ['-SOLUTION/ESTIMATE', SEP, '+SOLUTION/MATRIX_ESTIMATE %s COVA' % sol.triangle]
    if spec.get('mat_comment', True):
        L.append(MAT_COMMENT)
    L += matrix_lines(sol.file_cov(), sol.triangle)
    L += ['-SOLUTION/MATRIX_ESTIMATE %s COVA' % sol.triangle]
    if spec.get('extra_blocks'):
        L += [SEP, '+SOLUTION/MATRIX_APRIORI %s COVA' % sol.triangle, MAT_COMMENT]
        for i in range(len(sol.cov)):
            L.append(' %5d %5d %s' % (i + 1, i + 1, fe(1.0)))
        L += ['-SOLUTION/MATRIX_APRIORI %s COVA' % sol.triangle]
    L += ['%ENDSNX']
    if spec.get('alt_comments'):
        alt = {SITE_COMMENT: '*SITE PT __DOMES__ T _STATION DESCRIPTION__ APPROX_LON_ APPROX_LAT_ _APP_H_',
               EPOCH_COMMENT: '*SITE PT SOLN T _DATA_START_ __DATA_END__ _MEAN_EPOCH_',
               EST_COMMENT: '*INDEX _TYPE_ CODE PT SOLN _REF_EPOCH__ UNIT S ___ESTIMATED_VALUE___ __STD_DEV__',
               MAT_COMMENT: '*PARA1 PARA2 _______PARA2+0_______ _______PARA2+1_______ _______PARA2+2_______'}
        L = [alt.get(l, l) for l in L]
    if spec.get('inner_comments'):
        r = random.Random(spec.get('inner_seed', 0))
        for _ in range(spec['inner_comments']):
            # after some data line inside a block (never before a block's title or after its terminator)
            cands = [k for k in range(2, len(L) - 1) if L[k].startswith(' ') and not L[k + 1].startswith('+')]
            if not cands:
                break
            k = r.choice(cands)
            L.insert(k + 1, r.choice(['* comment inserted by the analysis centre', '*', '*-----------------', '* V V V 00006 VELX STAX']))
    if spec.get('pad_lines'):
        # Fortran-style fixed-length records: every line blank-padded to 80 columns
        L = [L[0]] + [l.ljust(80) if len(l) < 80 and l != '%ENDSNX' else l for l in L[1:]]
    return '\n'.join(L) + '\n'


# ---------------------------------------------------------------------------
# strict parser of an output file
# ---------------------------------------------------------------------------

def parse_header(h, errors):
    out = {}
    layout_ok = True

    def need(cond, why):
        nonlocal layout_ok
        if not cond:
            layout_ok = False
            errors.append(('header', why))
    need(h[:5] == '%=SNX', 'does not start with %=SNX')
    need(len(h) >= 69, 'header shorter than 69 characters')
    if len(h) < 69:
        return out
    for pos in (5, 10, 14, 27, 31, 44, 57, 59, 65, 67):
        need(h[pos] == ' ', 'layout: column %d is %r, expected a blank separator' % (pos, h[pos]))
    need(re.match(r'^\d\.\d\d$', h[6:10]) is not None, 'layout: version field')
    need(TIME_RE.match(h[15:27]) is not None, 'creation-field: %r is not YY:DDD:SSSSS at columns 15-26' % h[15:27])
    need(TIME_RE.match(h[32:44]) is not None, 'layout: data start field %r' % h[32:44])
    need(TIME_RE.match(h[45:57]) is not None, 'layout: data end field %r' % h[45:57])
    need(re.match(r'^\d{5}$', h[60:65]) is not None, 'count-field: %r is not five digits at columns 60-64' % h[60:65])
    tail = h[68:].rstrip()
    need(re.match(r'^[A-Z]( [A-Z])*$', tail) is not None, 'layout: contents field %r' % h[68:])
    out['creation'] = h[15:27]
    out['start'] = h[32:44]
    out['end'] = h[45:57]
    out['agency'] = h[11:14]
    out['count'] = int(h[60:65]) if re.match(r'^\d{5}$', h[60:65]) else None
    out['contents'] = tail.split()
    out['layout_ok'] = layout_ok
    return out


def parse_sinex(text):
    """-> dict(errors=[(category, message)], header, blocks{name: [lines]}, params[], matrix{type, entries}, order[])"""
    errors = []
    res = {'errors': errors, 'header': {}, 'blocks': {}, 'order': []}
    if not text:
        errors.append(('file', 'empty output'))
        return res
    lines = text.split('\n')
    if lines and lines[-1] == '':
        lines.pop()
    else:
        pass   # no final newline: tolerated (the trailer line itself is checked below)
    if not lines:
        errors.append(('file', 'empty output'))
        return res
    res['header'] = parse_header(lines[0], errors)
    if lines[-1].rstrip() != '%ENDSNX':
        errors.append(('trailer', 'last line is %r, expected %%ENDSNX on a line of its own' % lines[-1][:80]))
    cur = None
    for ln, line in enumerate(lines[1:], start=2):
        if '%ENDSNX' in line and line.rstrip() != '%ENDSNX':
            errors.append(('trailer', 'line %d: %%ENDSNX is not on a line of its own: %r' % (ln, line[-60:])))
        if line.startswith('+'):
            name = line[1:].split(' ')[0]
            if cur is not None:
                errors.append(('blocks', 'line %d: block %s opened inside unclosed block %s' % (ln, name, cur)))
            cur = name
            res['blocks'][name] = [line]
            res['order'].append(name)
            # a terminator glued onto the opening line (no newlines at all)
            if ('-' + name) in line[1:]:
                errors.append(('blocks', 'line %d: terminator of %s is not on a line of its own' % (ln, name)))
            continue
        if line.startswith('-'):
            name = line[1:].split(' ')[0]
            if cur is None or name != cur:
                errors.append(('blocks', 'line %d: terminator -%s does not close the open block %s' % (ln, name, cur)))
            else:
                res['blocks'][cur].append(line)
                if line.rstrip() != line.rstrip().split('%')[0].rstrip():
                    errors.append(('blocks', 'line %d: terminator of %s shares its line with %r' % (ln, name, line[-20:])))
            cur = None
            continue
        if cur is not None:
            res['blocks'][cur].append(line)
            if ('-' + cur) in line and not line.startswith('*'):
                errors.append(('blocks', 'line %d: terminator of %s is not at the start of a line of its own' % (ln, cur)))
        elif line.rstrip() == '%ENDSNX' or line.startswith('*') or line.strip() == '':
            pass
        else:
            errors.append(('blocks', 'line %d: data outside any block: %r' % (ln, line[:60])))
    if cur is not None:
        errors.append(('blocks', 'block %s is never closed by a -%s line of its own' % (cur, cur)))
    # ---- estimates ---------------------------------------------------------
    params = []
    for line in res['blocks'].get('SOLUTION/ESTIMATE', [])[1:]:
        if line.startswith('*') or line.startswith('-') or line.strip() == '':
            continue
        try:
            if len(line.rstrip()) > 80 or line[0] != ' ' or line[6] != ' ' or line[13] != ' ' or line[46] != ' ' or line[68] != ' ':
                raise ValueError('separator columns')
            params.append({'index': int(line[1:6]), 'type': line[7:13].strip(), 'code': line[14:18], 'pt': line[19:21].strip(),
                           'soln': line[22:26].strip(), 'epoch': line[27:39], 'unit': line[40:44].strip(), 'cons': line[45:46],
                           'value': float(line[47:68]), 'sigma': float(line[69:80])})
        except (ValueError, IndexError) as e:
            errors.append(('estimate-line', 'not in fixed-column format (%s): %r' % (e, line[:90])))
    res['params'] = params
    # ---- matrix ---------------------------------------------------------------
    mb = res['blocks'].get('SOLUTION/MATRIX_ESTIMATE')
    mat = {'type': None, 'entries': {}, 'lines': []}
    if mb:
        toks = mb[0].split()
        if len(toks) >= 2 and toks[1] in ('L', 'U'):
            mat['type'] = toks[1]
        else:
            errors.append(('matrix', 'block title %r lacks the L/U triangle flag' % mb[0][:60]))
        for line in mb[1:]:
            if line.startswith('*') or line.startswith('-') or line.strip() == '':
                continue
            mat['lines'].append(line)
            try:
                if line[0] != ' ' or line[6] != ' ' or line[12] != ' ':
                    raise ValueError('separator columns')
                r, c = int(line[1:6]), int(line[7:12])
                vals = line[13:].split()
                if not 1 <= len(vals) <= 3:
                    raise ValueError('%d values on a line' % len(vals))
                for k, v in enumerate(vals):
                    if line[13 + 22 * k: 13 + 22 * k + 21].strip() != v:
                        raise ValueError('value %d not in its fixed columns' % k)
                    key = (r, c + k)
                    if key in mat['entries']:
                        errors.append(('matrix', 'element %s given twice' % (key,)))
                    mat['entries'][key] = float(v)
            except (ValueError, IndexError) as e:
                errors.append(('matrix-line', 'not in fixed-column format (%s): %r' % (e, line[:90])))
    res['matrix'] = mat
    return res


def compare_solution(parsed, expected, tag):
    """-> list of (oracle, site, detail) comparing a parsed output with the model"""
    out = []
    exp = expected.params()
    got = parsed.get('params', [])
    if len(got) != len(exp):
        out.append(('estimates', tag + '/count', {'expected_records': len(exp), 'got_records': len(got),
                                                   'expected_stations': [s['code'] + ':' + s['soln'] for s in expected.stations][:20],
                                                   'got_codes': [p['code'] for p in got][:40]}))
    else:
        for k, (g, e) in enumerate(zip(got, exp)):
            if g['index'] != e['index']:
                out.append(('estimates', tag + '/index', {'record': k, 'expected_index': e['index'], 'got_index': g['index']}))
                break
            bad = [f for f in ('type', 'code', 'pt', 'soln', 'epoch', 'unit', 'cons', 'value', 'sigma') if g[f] != e[f]]
            if bad:
                order_problem = 'code' in bad or 'type' in bad or 'soln' in bad
                out.append(('estimates', tag + ('/order' if order_problem else '/field:' + bad[0]),
                            {'record': k, 'field': bad[0], 'expected': e[bad[0]], 'got': g[bad[0]]}))
                break
    mat = parsed.get('matrix', {})
    n = len(exp)
    exp_cov = expected.file_cov()
    if mat.get('type') != expected.triangle:
        out.append(('covariance', tag + '/triangle-type', {'expected': expected.triangle, 'got': mat.get('type')}))
    else:
        ent = mat['entries']
        tri = expected.triangle
        bad = None
        for (r, c), v in ent.items():
            if not (1 <= r <= n and 1 <= c <= n) or (tri == 'L' and c > r) or (tri == 'U' and c < r):
                bad = ('element-outside-triangle', {'row': r, 'col': c, 'n': n})
                break
        if bad is None:
            for i in range(n):
                rng_ = range(0, i + 1) if tri == 'L' else range(i, n)
                for j in rng_:
                    want = exp_cov[i][j]
                    gotv = ent.get((i + 1, j + 1), 0.0)   # SINEX: omitted elements are zero
                    if gotv != want:
                        bad = ('element-value', {'row': i + 1, 'col': j + 1, 'expected': want, 'got': gotv,
                                                 'present': (i + 1, j + 1) in ent})
                        break
                if bad:
                    break
        if bad:
            out.append(('covariance', '%s/%s/%s' % (tag, tri, bad[0]), bad[1]))
    cnt = parsed.get('header', {}).get('count')
    if cnt != n:
        out.append(('header-count', tag, {'expected': n, 'got': cnt}))
    return out
