"""C09 - library calls are pure: no hidden state, no mutation of constants or
arguments, bit-identical results whatever ran before or runs concurrently.

Deterministic simulation: 1..8 simulated caller threads (real threads, one
baton, seeded pre-emption at line events inside /repo files) execute a
generated history of 1..50 public-API calls; faults = cancellation / MemoryError
at an arbitrary line, stalls.  Oracles:
  O1  write barrier + snapshots on the import-time constant catalogue and on
      module-level library data
  O2  deep fingerprint of every caller-owned argument before == after
  O3  outcome fingerprint == the same call evaluated alone in a pristine process
"""
import hashlib
import os
import random
import sys

from detsim import kernel
from detsim.kernel import EventLog, jdump, short_hash
from detsim.fingerprint import Canon, brief, unhex_floats, obj_state
from detsim.sched import (Sched, SimCancelled, StepBudgetExceeded, Replay, RoundRobin,
                          draw_decider, Decider, wrap_module_locks, sut_code_objects)
from detsim.simfs import SimFS
from checks.common import CheckBase
from checks import c09_ops as ops_mod
from checks import ntv2_writer

REF_LINE_BUDGET = 150000
RUN_STEP_BUDGET = 600000


class _Ctx(object):
    pass


class _LineCounter(object):
    """settrace-based line counter for the pristine reference evaluation (budget
    in line events, so dropping an op is deterministic, not wall-clock based)."""

    def __init__(self, is_sut, budget):
        self.is_sut = is_sut
        self.budget = budget
        self.n = 0
        self._cache = {}

    def g(self, frame, event, arg):
        fn = frame.f_code.co_filename
        f = self._cache.get(fn)
        if f is None:
            f = self._cache[fn] = bool(self.is_sut(fn))
        return self.l if f else None

    def l(self, frame, event, arg):
        if event == 'line':
            self.n += 1
            if self.n > self.budget:
                raise StepBudgetExceeded()
        return self.l


class C09(CheckBase):
    id = 'C09'
    title = 'Library calls are pure'
    quick_runs = 1000
    thorough_runs = 30000
    quick_budget_s = 75
    thorough_budget_s = 4200
    run_timeout = 90
    det_sample_quick = 16
    det_sample_thorough = 96
    required_probes = ['preempt_inside_constants_py', 'cancel_fired_inside_constants_py',
                       'shared_argument_in_flight_on_two_threads', 'repeat_on_other_thread',
                       'two_transformation_ops_in_flight', 'covariance_with_sd_op', 'near_repeat_op',
                       'same_kind_in_flight_on_two_threads']
    components = {
        'real': ['geodepy.angles', 'geodepy.constants', 'geodepy.convert', 'geodepy.geodesy', 'geodepy.statistics',
                 'geodepy.survey', 'geodepy.transform', 'geodepy.coord', 'geodepy.ntv2reader (under transform.ntv2_2d)',
                 'numpy'],
        'simulated': ['caller threads (real OS threads, one baton, seeded scheduler at line events or at every bytecode instruction)',
                      'cancellation / MemoryError / stall faults'],
        'stub': ['the disk under ntv2_2d (SimFS, one generated 2-sub-grid file)'],
    }
    assumptions = [
        'pre-emption at line events (sys.settrace) in most runs and at every bytecode instruction (sys.monitoring INSTRUCTION events, instrumented before the threads start) in a share of the fault-free multi-threaded runs and in the same-kind sweep; always only inside files under /repo; numpy C code runs atomically',
        'the reference value of a call is the same code evaluated alone in a freshly forked pristine process',
        'a new private memo (underscore name, new name, or container empty at import) is tolerated as long as results stay bit-identical',
    ]
    rule = ('run = seeded history of 1..50 public-API calls over 1..8 simulated threads + fault plan; non-trivial = >=2 ops and '
            '(single thread: >=1 repeated or state-sharing op pair; multi thread: >=1 context switch while >=2 ops in flight); '
            'distinct = sha256 of (op kinds per thread, sequence of (pre-empted kind -> resumed kind) at switches, fault kinds fired)')
    simulated_time_note = 'no timers in this system; time is scheduler steps (line / instruction events), see counters.steps'

    # ------------------------------------------------------------------ setup
    def setup_process(self):
        env = self.env = ops_mod.Env()
        c = env.constants
        self.repo_prefix = kernel.REPO + os.sep
        self.canary_file = os.path.join(kernel.VERIF, 'checks', 'c09_canary.py')
        classes = (c.Ellipsoid, c.Projection, c.Transformation, c.TransformationSD)
        self.cat = {}
        self.cat_objs = []
        for name, v in list(vars(c).items()):
            if isinstance(v, classes) and id(v) not in self.cat:
                self.cat[id(v)] = name
                self.cat_objs.append((name, v))
        self.canon = Canon(names=self.cat)
        ctx = self.ctx = _Ctx()
        import datetime
        ctx.catalogue = [n for n, v in self.cat_objs if isinstance(v, c.Transformation)]
        ctx.dated = [n for n in ctx.catalogue if type(getattr(c, n).ref_epoch) is datetime.date]
        ctx.with_sd = [n for n in ctx.catalogue if getattr(c, n).tf_sd is not None]
        ops_mod.DATED_SD[:] = [n for n in ctx.dated if n in ctx.with_sd]
        ctx.label_groups = {}
        for n in ctx.catalogue:
            t = getattr(c, n)
            same = [m for m in ctx.catalogue if m != n and (getattr(c, m).from_datum, getattr(c, m).to_datum) == (t.from_datum, t.to_datum)]
            if same:
                ctx.label_groups[n] = same
        # canary ops (harness-side toys)
        from checks import c09_canary
        self.canary_mod = c09_canary
        env.mods['canary'] = c09_canary
        # simulated disk for ntv2_2d
        self.fs = SimFS(record=False)
        spec = {'subgrids': [
            {'name': 'PARENT', 'parent': 'NONE', 's_lat': -38 * 3600.0, 'e_long': -146 * 3600.0,
             'lat_inc': 300.0, 'long_inc': 300.0, 'nrow': 25, 'ncol': 25},
            # disjoint on purpose: ntv2reader iterates a set() of names of overlapping sub-grids, whose
            # order (hence the line-event count, hence the run digest) would depend on PYTHONHASHSEED
            {'name': 'OTHER', 'parent': 'NONE', 's_lat': -37.5 * 3600.0, 'e_long': -148.5 * 3600.0,
             'lat_inc': 60.0, 'long_inc': 60.0, 'nrow': 31, 'ncol': 31}]}
        data, _ = ntv2_writer.build(spec, lambda k, r, cc: (0.25 * r - 0.125 * cc + k, 0.5 * cc + 0.0625 * r * cc, 0.01, 0.02))
        self.fs.put('/sim/std.gsb', data)
        # a second, different grid file (same sub-grid names, other spacing and values): callers may hold
        # several grid objects at once
        spec2 = {'subgrids': [
            {'name': 'PARENT', 'parent': 'NONE', 's_lat': -38 * 3600.0, 'e_long': -146 * 3600.0,
             'lat_inc': 600.0, 'long_inc': 600.0, 'nrow': 13, 'ncol': 13},
            {'name': 'THIRD', 'parent': 'NONE', 's_lat': -30 * 3600.0, 'e_long': -120 * 3600.0,
             'lat_inc': 300.0, 'long_inc': 300.0, 'nrow': 5, 'ncol': 5}]}
        data2, _ = ntv2_writer.build(spec2, lambda k, r, cc: (2.5 - 0.5 * r + 0.25 * cc, 1.0 + 0.125 * r * cc, 0.03, 0.04))
        self.fs.put('/sim/alt.gsb', data2)
        env.ntv2reader.open = self.fs.open
        self.fs.install_os_seam(env.ntv2reader)
        env.grid_share = None        # dict during a run whose callers hold ONE grid object per file (read once, used by all)

        def grid_factory(which='std'):
            if env.grid_share is not None:
                g = env.grid_share.get(which)
                if g is None:
                    g = env.grid_share[which] = env.ntv2reader.read_ntv2_file('/sim/%s.gsb' % which)
                return g
            return env.ntv2reader.read_ntv2_file('/sim/%s.gsb' % which)
        env.grid_factory = grid_factory
        # write barrier
        self.barrier_hits = []
        self.barrier_on = False
        self.cur_sched = None
        for cls in classes:
            self._install_barrier(cls)
        self.weights = ops_mod.kind_weights()
        self.kinds = sorted(k for k in ops_mod.OPS if not k.startswith('canary.'))
        self.kind_w = [self.weights[k] for k in self.kinds]
        self.thorough_runs = self.N_RANDOM_THOROUGH + 2 * self.n_pairs() + 8 * len(self.kinds) + \
            4 * self.N_PREEMPT_POINTS * len(self.kinds) + self.N_PREEMPT_POINTS * len(self.kinds) + 4 * len(self.kinds)
        self._init_siblings()
        self.quick_runs = 800 + 5 * len(self.kinds) + self.n_siblings('quick')
        self.wrapped_locks = wrap_module_locks([m for n, m in sorted(sys.modules.items())
                                                if m is not None and (n == 'geodepy' or n.startswith('geodepy.'))])
        self.sut_codes = sut_code_objects([m for n, m in sorted(sys.modules.items())
                                            if m is not None and (n == 'geodepy' or n.startswith('geodepy.'))] + [self.canary_mod])
        self.base_fast = self.fast_snapshot()
        self.base_mod = self.module_snapshot()

    def is_sut_file(self, fn):
        return fn.startswith(self.repo_prefix) or fn == self.canary_file

    def _install_barrier(self, cls):
        check = self
        orig_set = cls.__setattr__
        orig_del = cls.__delattr__

        def __setattr__(obj, name, value):
            if check.barrier_on and id(obj) in check.cat:
                check._barrier_event(obj, name, value, False)
            orig_set(obj, name, value)

        def __delattr__(obj, name):
            if check.barrier_on and id(obj) in check.cat:
                check._barrier_event(obj, name, None, True)
            orig_del(obj, name)

        cls.__setattr__ = __setattr__
        cls.__delattr__ = __delattr__

    def _barrier_event(self, obj, name, value, deleted):
        d = obj_state(obj)
        if not deleted and name in d:
            old = d[name]
            if old is value or (type(old) is type(value) and self.canon.canon(old) == self.canon.canon(value)):
                return   # writing the value it already has is not a change
        f = sys._getframe(2)
        s = self.cur_sched
        tid = s.current if s is not None else None
        opid = s.curop[tid] if s is not None and tid is not None else None
        self.barrier_hits.append({
            'const': self.cat[id(obj)], 'attr': name,
            'old': brief(unhex_floats(self.canon.canon(d.get(name, '<absent>'))), 120),
            'new': '<deleted>' if deleted else brief(unhex_floats(self.canon.canon(value)), 120),
            'where': '%s:%d' % (os.path.basename(f.f_code.co_filename), f.f_lineno),
            'thread': tid, 'op': opid})

    # -------------------------------------------------------------- snapshots
    @staticmethod
    def process_state():
        """interpreter-wide state a pure library call has no business changing"""
        import warnings, decimal, locale, random as _r
        import numpy as _np
        return {
            'warnings.filters': repr([(f[0], getattr(f[1], 'pattern', f[1]), getattr(f[2], '__name__', f[2]),
                                       getattr(f[3], 'pattern', f[3]), f[4]) for f in warnings.filters]),
            'numpy.errstate': repr(sorted(_np.geterr().items())),
            'numpy.printoptions': repr(sorted((k, repr(v)) for k, v in _np.get_printoptions().items())),
            'decimal.context': repr(decimal.getcontext()),
            'locale': repr(locale.getlocale()),
            'sys.recursionlimit': repr(sys.getrecursionlimit()),
            'sys.switchinterval': repr(sys.getswitchinterval()),
            'random.state': short_hash(repr(_r.getstate()), 12),
            'os.cwd': os.getcwd(),
            'os.environ': short_hash(repr(sorted(os.environ.items())), 12),
        }

    def fast_snapshot(self):
        return [repr(sorted(obj_state(o).items(), key=lambda kv: kv[0])) for _, o in self.cat_objs]

    def module_snapshot(self):
        """(module, name) -> (digest, judged).  judged = public name bound at
        import to non-empty plain data or to a repository-class instance."""
        snap = {}
        cn = self.canon
        for mname in sorted(sys.modules):
            if not (mname == 'geodepy' or mname.startswith('geodepy.')):
                continue
            if mname.startswith('geodepy.tests') or mname == 'geodepy.gnss':
                continue
            mod = sys.modules[mname]
            for name, val in list(vars(mod).items()):
                if name.startswith('__') and name.endswith('__'):
                    continue
                key = mname + '.' + name
                t = type(val)
                if t.__name__ == 'module':
                    continue
                if id(val) in self.cat:
                    if mname == 'geodepy.constants':
                        snap[key] = (cn.digest(val, by_name=False), True)
                    else:
                        snap[key] = ('@' + self.cat[id(val)], True)
                    continue
                if isinstance(val, type):
                    if getattr(val, '__module__', None) == mname:
                        for an, av in list(vars(val).items()):
                            if an.startswith('__') and an.endswith('__'):
                                continue
                            if callable(av) or isinstance(av, (staticmethod, classmethod, property)):
                                continue
                            snap[key + '.' + an] = (cn.digest(av), self._judged(an, av))
                    continue
                if callable(val):
                    if getattr(val, '__module__', None) == mname and hasattr(val, '__defaults__'):
                        dv = (val.__defaults__, val.__kwdefaults__)
                        if dv != (None, None):
                            snap[key + '.__defaults__'] = (cn.digest(dv), self._judged_defaults(dv))
                    continue
                snap[key] = (cn.digest(val, by_name=False), self._judged(name, val))
        return snap

    def _judged(self, name, val):
        if name.startswith('_'):
            return False
        if isinstance(val, (list, dict, set, tuple, str, bytes)) and len(val) == 0:
            return False
        c = self.canon.canon(val)
        if isinstance(c, list) and c and c[0] == 'foreign':
            return False
        return True

    def _judged_defaults(self, dv):
        # mutable defaults that are empty at import are tolerated as private memos
        for part in dv:
            if not part:
                continue
            vals = part.values() if isinstance(part, dict) else part
            for v in vals:
                if isinstance(v, (list, dict, set)) and len(v) == 0:
                    return False
        return True

    # --------------------------------------------------------------- generate
    N_RANDOM_THOROUGH = 30000

    def _pair_of(self, p):
        """p-th unordered pair (a <= b) of op kinds, row-major"""
        n = len(self.kinds)
        a = 0
        while p >= n - a:
            p -= n - a
            a += 1
        return self.kinds[a], self.kinds[a + p]

    def n_pairs(self):
        n = len(self.kinds)
        return n * (n + 1) // 2

    def _pair_trace(self, rng, j):
        """Systematic part of the thorough tier: every unordered pair of op kinds once as a sequential
        history A, B, A', B' (A' / B' repeat the first calls: does B disturb A, does A disturb B) and
        once on two threads under a seeded schedule."""
        ka, kb = self._pair_of(j // 2)
        T = 1 + j % 2
        ops = []
        a_args = ops_mod.OPS[ka][1](rng, self.ctx)
        b_args = ops_mod.OPS[kb][1](rng, self.ctx)
        seq = [(ka, a_args, 0), (kb, b_args, 1), (ka, a_args, 0), (kb, b_args, 1)]
        if T == 2:
            seq += [(ka, ops_mod.OPS[ka][1](rng, self.ctx), 1), (kb, ops_mod.OPS[kb][1](rng, self.ctx), 0)]
        for n, (k, args, th) in enumerate(seq):
            o = {'id': n, 'kind': k, 'args': args, 'thread': th % T}
            if n in (2, 3):
                o['repeat_of'] = n - 2
            ops.append(o)
        return {'property': 'C09', 'threads': T, 'ops': ops, 'shared': [], 'faults': [],
                'sched': {'mode': 'rng', 'seed': rng.getrandbits(64)}, 'switches': [], 'opcode_salt': None,
                'scribble': rng.random() < 0.35, 'focus': [ka, kb], 'pair_sweep': True,
                'granularity': 'instr' if T == 2 and rng.random() < 0.5 else 'line'}

    def _same_kind_trace(self, rng, j):
        """Systematic part of BOTH tiers: every op kind twice on each of two threads with different
        arguments, pre-empted at every bytecode instruction under a dense random-walk schedule - the
        configuration in which a function races with itself on hidden shared state."""
        k = self.kinds[j % len(self.kinds)]
        ops = []
        for n in range(4):
            ops.append({'id': n, 'kind': k, 'args': ops_mod.OPS[k][1](rng, self.ctx), 'thread': n % 2})
        if rng.random() < 0.4:
            # both callers start with the very same call: what is built on first use of a key is built twice at once
            ops[1]['args'] = ops[0]['args']
            ops[1]['repeat_of'] = 0
        return {'property': 'C09', 'threads': 2, 'ops': ops, 'shared': [], 'faults': [],
                'sched': {'mode': 'rw', 'p': rng.choice([0.5, 0.5, 0.25, 0.75]), 'seed': rng.getrandbits(64)}, 'switches': [],
                'opcode_salt': None, 'scribble': False, 'focus': [k], 'pair_sweep': True, 'granularity': 'instr'}

    N_PREEMPT_POINTS = 48

    def _preempt_trace(self, rng, kind_index, frac, variant):
        """Systematic concurrency sweep (pre-emption bound 1, and the symmetric bound-2 schedule): an op kind
        races with itself; thread 0 is stopped at the pre-emption point that lies `frac` of the way through
        its call (line or instruction granularity), thread 1 then runs either to completion (single) or to
        the SAME point of its own call, after which thread 0 resumes (diag: both callers inside the same
        critical window).  The point is resolved from the call's measured length, so a sweep over frac
        visits every line of every function."""
        k = self.kinds[kind_index % len(self.kinds)]
        ops = [{'id': n, 'kind': k, 'args': ops_mod.OPS[k][1](rng, self.ctx), 'thread': n} for n in range(2)]
        if rng.random() < 0.4:
            ops[1]['args'] = ops[0]['args']          # the same call from both callers (first use of the same key)
            ops[1]['repeat_of'] = 0
        return {'property': 'C09', 'threads': 2, 'ops': ops, 'shared': [], 'faults': [],
                'sched': {'mode': 'preempt', 'frac': round(frac, 5), 'diag': bool(variant & 1)}, 'switches': [],
                'opcode_salt': None, 'scribble': False, 'focus': [k], 'pair_sweep': True,
                'granularity': 'instr' if variant & 2 else 'line'}

    @staticmethod
    def _bad_argument(rng, args, which=None):
        """the same call with ONE argument of a wrong type (None / str / list): a caller's mistake that makes
        the library raise somewhere inside; a failed call is still part of the history"""
        if not args:
            return list(args), False
        idx = [i for i, a in enumerate(args) if isinstance(a, (int, float)) and not isinstance(a, bool)] or list(range(len(args)))
        i = idx[(which if which is not None else rng.randrange(len(idx))) % len(idx)]
        out = list(args)
        out[i] = rng.choice([None, 'n/a', None])      # immutable wrong-typed values only: what a function does to an argument of a type it does not accept is outside the property
        if isinstance(args[i], float) and rng.random() < 0.35:
            # right type, impossible value: not-a-number, out of any range, sexagesimal notation with 75 minutes.
            # Functions that validate raise ValueError / ZeroDivisionError / OverflowError half-way; the others
            # return nan - either way the same thing every time
            import math
            out[i] = rng.choice([float('nan'), 1e308, -1e308, math.floor(abs(args[i])) + 0.75, math.floor(abs(args[i])) + 0.0075])
        return out, True

    def _cancel_trace(self, rng, kind_index, frac, kind_of_fault, follow=5):
        """Systematic interruption sweep: a call of every op kind is cancelled (or hit by MemoryError) at the
        line lying `frac` of the way through it; then the same call is made again un-faulted, followed by the
        same kind with other arguments.  Whatever the interrupted call left behind (a half-updated constant,
        a flag, a memo, an altered argument) shows in the barrier / snapshots / O2 or in the later results."""
        k = self.kinds[kind_index % len(self.kinds)]
        a1 = ops_mod.OPS[k][1](rng, self.ctx)
        first = a1
        faults = [{'kind': kind_of_fault, 'op': 0, 'frac': round(frac, 5)}]
        if kind_of_fault == 'badarg':
            first, _ = self._bad_argument(rng, a1, which=int(frac * 48))
            faults = []
        ops = [{'id': 0, 'kind': k, 'args': first, 'thread': 0}, {'id': 1, 'kind': k, 'args': a1, 'thread': 0},
               {'id': 2, 'kind': k, 'args': ops_mod.OPS[k][1](rng, self.ctx), 'thread': 0}]
        if kind_of_fault == 'badarg':
            if follow > 5:
                # every argument position in turn gets the wrong type first (each on freshly drawn arguments:
                # optional arguments select different paths through the function)
                ops = []
                for p in range(4):
                    bad, ok = self._bad_argument(rng, ops_mod.OPS[k][1](rng, self.ctx), which=p)
                    if ok:
                        ops.append({'id': len(ops), 'kind': k, 'args': bad, 'thread': 0})
                ops.append({'id': len(ops), 'kind': k, 'args': a1, 'thread': 0})
            n0 = len(ops)
            ops += [{'id': n0 + n, 'kind': k, 'args': ops_mod.OPS[k][1](rng, self.ctx), 'thread': 0} for n in range(follow)]
        else:
            ops[1]['repeat_of'] = 0
        return {'property': 'C09', 'threads': 1, 'ops': ops, 'shared': [],
                'faults': faults,
                'sched': {'mode': 'rr'}, 'switches': [], 'opcode_salt': None, 'scribble': False, 'focus': [k],
                'pair_sweep': True, 'granularity': 'line'}

    N_SIBLING_SAMPLE_QUICK = 250

    def _init_siblings(self):
        """Sibling op kinds: plain functions of one module whose parameter lists are identical (sib_named),
        and every ordered pair of different op kinds of one family (sib_family)."""
        import inspect
        by_sig = {}
        for k in self.kinds:
            t = ops_mod.OPS[k][0]
            if not t.startswith('f:'):
                continue
            try:
                names = tuple(inspect.signature(ops_mod.resolve(t, self.env)).parameters)
            except (TypeError, ValueError):
                continue
            by_sig.setdefault((t[2:].partition('.')[0], names), []).append(k)
        self.sib_named = [(a, b) for ks in by_sig.values() for a in ks for b in ks if a != b]
        self.sib_named.sort()
        fam = {}
        for k in self.kinds:
            fam.setdefault(k.partition('.')[0], []).append(k)
        self.sib_family = sorted((a, b) for ks in fam.values() for a in ks for b in ks if a != b)

    def n_siblings(self, tier):
        if tier == 'thorough':
            return len(self.sib_named) + len(self.sib_family)
        return len(self.sib_named) + min(self.N_SIBLING_SAMPLE_QUICK, len(self.sib_family))

    @staticmethod
    def _lit_class(v):
        if isinstance(v, bool) or v is None or isinstance(v, str):
            return repr(type(v))
        if isinstance(v, (int, float)):
            return 'num'
        if isinstance(v, dict):
            return 'dict:' + ','.join(sorted(v)[:1])
        if isinstance(v, list):
            return 'list'
        return repr(type(v))

    def _sibling_trace(self, rng, j, tier):
        """Two DIFFERENT op kinds of one family called with the SAME argument values: A(x), B(x), A(x), B(x).
        State kept per argument tuple but shared between functions (one memo table for two formulas, a key
        that leaves out which function is asking) is invisible as long as every function sees its own
        arguments only.  Kinds with identical parameter lists come first, in both orders; then ordered pairs
        of one family (all of them in the thorough tier, a seeded sample in the quick tier), where B takes
        A's values at every position whose kind of value agrees.  Every call is compared with its own
        pristine evaluation, so calls that the shared values make invalid are compared as errors."""
        if j < len(self.sib_named):
            ka, kb = self.sib_named[j]
        elif tier == 'thorough':
            ka, kb = self.sib_family[(j - len(self.sib_named)) % len(self.sib_family)]
        else:
            ka, kb = rng.choice(self.sib_family)
        a = ops_mod.OPS[ka][1](rng, self.ctx)
        best = None
        for _ in range(4):
            b = list(ops_mod.OPS[kb][1](rng, self.ctx))
            n = 0
            for p in range(min(len(a), len(b))):
                if self._lit_class(a[p]) == self._lit_class(b[p]):
                    b[p] = a[p]
                    n += 1
            if best is None or n > best[0]:
                best = (n, b)
            if n == min(len(a), len(b)):
                break
        b = best[1]
        ops = []
        for n, (k, args) in enumerate([(ka, a), (kb, b), (ka, a), (kb, b)]):
            o = {'id': n, 'kind': k, 'args': list(args), 'thread': 0}
            if n >= 2:
                o['repeat_of'] = n - 2
            ops.append(o)
        return {'property': 'C09', 'threads': 1, 'ops': ops, 'shared': [], 'faults': [],
                'sched': {'mode': 'rr'}, 'switches': [], 'opcode_salt': None, 'scribble': False, 'focus': [ka, kb],
                'pair_sweep': True, 'sibling_sweep': True, 'granularity': 'line'}

    def _equal_keys_trace(self, rng, kind_index, pos=None):
        """Arguments that are EQUAL but not identical: a whole number as float / numpy.float32 / int, and zero
        with either sign.  A memo keyed by the argument tuple (lru_cache, dict) takes them for the same call;
        the computation does not (single precision, atan2 of a signed zero).  Every call is compared with its
        own pristine evaluation, so the order of the calls is what is being tested."""
        k = self.kinds[kind_index % len(self.kinds)]
        a = ops_mod.OPS[k][1](rng, self.ctx)
        idx = [i for i, v in enumerate(a) if isinstance(v, float)]
        ops = []

        def add(args):
            ops.append({'id': len(ops), 'kind': k, 'args': list(args), 'thread': 0})
        if not idx:
            add(a)
            add(ops_mod.OPS[k][1](rng, self.ctx))
        else:
            p = idx[(pos if pos is not None else rng.randrange(len(idx))) % len(idx)]
            import math
            whole = float(round(a[p])) if math.isfinite(a[p]) and abs(a[p]) < 2 ** 23 else 1.0

            def variant(v):
                b = list(a)
                b[p] = v
                return b
            order = [whole, {'$num': ['f32', whole]}, {'$num': ['int', whole]}, {'$num': ['f64', whole]}, whole]
            if rng.random() < 0.5:
                order = [{'$num': ['f32', whole]}, whole, {'$num': ['int', whole]}]
            for v in order:
                add(variant(v))
            zeros = [0.0, -0.0, 0.0] if rng.random() < 0.5 else [-0.0, 0.0, -0.0]
            for v in zeros:
                add(variant(v))
        return {'property': 'C09', 'threads': 1, 'ops': ops, 'shared': [], 'faults': [],
                'sched': {'mode': 'rr'}, 'switches': [], 'opcode_salt': None, 'scribble': False, 'focus': [k],
                'pair_sweep': True, 'granularity': 'line'}

    def generate(self, rng, i, tier):
        t = self._generate(rng, i, tier)
        # half of the runs: every caller uses the same grid object per NTv2 file (read once, shared by all
        # threads - the usual way to use a grid); otherwise each call reads its own
        t['share_grid'] = rng.random() < 0.5
        return t

    def _generate(self, rng, i, tier):
        K = len(self.kinds)
        if i < K:
            return self._same_kind_trace(rng, i)
        if i < 2 * K:
            return self._preempt_trace(rng, i - K, rng.random(), (i - K) % 4)
        if i < 3 * K:
            return self._cancel_trace(rng, i - 2 * K, rng.random(), ['cancel', 'oom', 'badarg', 'cancel'][i % 4])
        if i < 4 * K:
            # a failed call (wrong-typed argument) followed by a long run of valid calls of the same kind:
            # what an error path leaves behind may show only in a few per cent of the later results
            return self._cancel_trace(rng, i - 3 * K, rng.random(), 'badarg', follow=40)
        if i < 5 * K:
            return self._equal_keys_trace(rng, i - 4 * K)
        if i < 5 * K + self.n_siblings(tier):
            return self._sibling_trace(rng, i - 5 * K, tier)
        if tier == 'thorough' and i >= self.N_RANDOM_THOROUGH:
            j = i - self.N_RANDOM_THOROUGH
            if j < 2 * self.n_pairs():
                return self._pair_trace(rng, j)
            j -= 2 * self.n_pairs()
            if j < 8 * K:
                return self._same_kind_trace(rng, j)
            j -= 8 * K
            if j < 4 * self.N_PREEMPT_POINTS * K:
                point, rest = j % self.N_PREEMPT_POINTS, j // self.N_PREEMPT_POINTS
                return self._preempt_trace(rng, rest // 4, (point + 0.5) / self.N_PREEMPT_POINTS, rest % 4)
            j -= 4 * self.N_PREEMPT_POINTS * K
            if j >= self.N_PREEMPT_POINTS * K:
                j -= self.N_PREEMPT_POINTS * K
                return self._equal_keys_trace(rng, j // 4, j % 4)
            point, rest = j % self.N_PREEMPT_POINTS, j // self.N_PREEMPT_POINTS
            return self._cancel_trace(rng, rest, (point + 0.5) / self.N_PREEMPT_POINTS,
                                      'badarg' if point < 8 else ('cancel' if point % 4 else 'oom'))
        cls = rng.randrange(10)
        if cls < 2:
            T = 1
        else:
            T = rng.choice([2, 2, 2, 3, 3, 4, 5, 6, 8])
        nops = rng.choice([2, 3, 4, 6, 8, 12, 20, 35, 50]) if rng.random() < 0.9 else rng.randrange(1, 51)
        # swarm: a per-run subset of op families gets boosted
        fams = ['transform.', 'Transformation.', 'statistics.', 'convert.', 'geodesy.', 'survey.', 'Coord', 'Angle', 'angles.', 'constants.']
        boost = set(rng.sample(fams, rng.randrange(1, 4)))
        w = [wk * (4 if any(k.startswith(b) or (b == 'Angle' and 'Angle.' in k) for b in boost) else 1)
             for k, wk in zip(self.kinds, self.kind_w)]
        # focused runs: the whole history is drawn from 1..3 op kinds, so that calls of the
        # same function (and of functions sharing helpers) overlap in time and in history
        focus = None
        if rng.random() < 0.4:
            focus = rng.choices(self.kinds, w, k=rng.choice([1, 1, 2, 3]))
        ops = []
        shared = []
        for j in range(nops):
            k = rng.random()
            if ops and k < 0.25:
                src = rng.choice(ops)
                o = {'id': j, 'kind': src['kind'], 'args': src['args'], 'thread': rng.randrange(T), 'repeat_of': src['id']}
            elif ops and k < 0.45:
                # near-repeat: same call, one argument replaced by a close relative
                src = rng.choice(ops)
                args = list(src['args'])
                idx = list(range(len(args)))
                # structured arguments first (that is where coarse memo keys live), plain numbers last
                idx.sort(key=lambda a: (0 if isinstance(args[a], dict) else 1) + rng.random() * 1.4)
                done = False
                for a in idx:
                    v = ops_mod.near_variant(rng, args[a], self.ctx)
                    if v is not None:
                        args[a] = v
                        done = True
                        break
                o = {'id': j, 'kind': src['kind'], 'args': args, 'thread': rng.randrange(T)}
                if done:
                    o['near_repeat_of'] = src['id']
                else:
                    o['repeat_of'] = src['id']
            else:
                kind = rng.choice(focus) if focus else rng.choices(self.kinds, w)[0]
                args = ops_mod.OPS[kind][1](rng, self.ctx)
                o = {'id': j, 'kind': kind, 'args': args, 'thread': rng.randrange(T)}
                if rng.random() < 0.03:
                    o['args'], o['bad_argument'] = self._bad_argument(rng, args)
            ops.append(o)
        # share some mutable arguments between two ops (legal for pure functions)
        if len(ops) >= 2:
            for _ in range(max(1, len(ops) // 5)):
                a = rng.choice(ops)
                cands = [k for k, v in enumerate(a['args']) if isinstance(v, (dict, list)) and '$shared' not in (v if isinstance(v, dict) else {})
                         and not (isinstance(v, dict) and ('$const' in v or '$cls' in v or '$grid' in v))]
                if not cands:
                    continue
                k = rng.choice(cands)
                lit = a['args'][k]
                # find another op that can take the same literal in some position of the same literal type
                others = [b for b in ops if b is not a and any(self._same_shape(lit, v) for v in b['args'])]
                if not others:
                    continue
                b = rng.choice(others)
                kb = rng.choice([n for n, v in enumerate(b['args']) if self._same_shape(lit, v)])
                shared.append(lit)
                ref = {'$shared': len(shared) - 1}
                a['args'] = list(a['args'])
                a['args'][k] = ref
                b['args'] = list(b['args'])
                b['args'][kb] = ref
        faults = []
        fault_class = rng.random() < 0.45
        if fault_class:
            for _ in range(rng.choice([1, 1, 2, 3])):
                o = rng.choice(ops)
                faults.append({'kind': rng.choice(['cancel', 'cancel', 'oom']), 'op': o['id'], 'frac': round(rng.random(), 4)})
            if T > 1 and rng.random() < 0.4:
                faults.append({'kind': 'stall', 'thread': rng.randrange(T), 'at': rng.randrange(1, 3000), 'for': rng.choice([50, 500, 5000])})
        # Opcode-granularity pre-emption (frame.f_trace_opcodes) is NOT used: CPython 3.12.1 segfaults
        # when opcode events are enabled while another thread is suspended inside the same code object
        # (reproduced: ~2 % of multi-threaded runs die with SIGSEGV).  Line events only.
        opcode = None
        # a share of the multi-threaded, fault-free, shorter runs is pre-empted at every bytecode
        # instruction (sys.monitoring) instead of at every line: splits single-line read-modify-writes
        gran = 'line'
        if T > 1 and not faults and len(ops) <= 20 and rng.random() < 0.3:
            gran = 'instr'
        return {'property': 'C09', 'threads': T, 'ops': ops, 'shared': shared, 'faults': faults,
                'sched': {'mode': 'rng', 'seed': rng.getrandbits(64)}, 'switches': [], 'opcode_salt': opcode,
                'scribble': rng.random() < 0.35, 'focus': focus, 'granularity': gran}

    @staticmethod
    def _same_shape(lit, v):
        if not isinstance(v, dict) or not isinstance(lit, dict):
            return isinstance(lit, list) and isinstance(v, list) and len(lit) == len(v) and bool(lit) and \
                all(isinstance(x, (int, float)) for x in lit + v)
        if '$angle' in lit and '$angle' in v:
            return True
        if '$array' in lit and '$array' in v:
            la, va = lit['$array'], v['$array']
            return len(la) == len(va) and isinstance(la[0], list) == isinstance(va[0], list) and \
                (not isinstance(la[0], list) or len(la[0]) == len(va[0]))
        if '$coord' in lit and '$coord' in v:
            return lit['$coord'][0] == v['$coord'][0]
        if '$trans' in lit and '$trans' in v:
            return True
        if '$ell' in lit and '$ell' in v:
            return True
        return False

    # ------------------------------------------------------------- references
    def _call(self, kind, args):
        target = ops_mod.OPS[kind][0]
        fn = ops_mod.resolve(target, self.env)
        return fn(*args)

    def _ref_child(self, op):
        env = self.env
        env.reset_shared(self._cur_shared)
        try:
            args = [ops_mod.materialise(a, env) for a in op['args']]
        except Exception as e:      # the literal is not a valid caller object (e.g. invalid HP value)
            return {'status': 'unbuildable', 'lines': 0, 'exc': type(e).__name__}
        lc = _LineCounter(self.is_sut_file, REF_LINE_BUDGET)
        try:
            sys.settrace(lc.g)
            try:
                res = self._call(op['kind'], args)
            finally:
                sys.settrace(None)
            out = ['ok', self.canon.canon(res)]
        except StepBudgetExceeded:
            return {'status': 'dropped', 'lines': lc.n}
        except Exception as e:
            out = ['exc', self.canon.canon(e)]
        return {'status': 'ok', 'digest': short_hash(out, 24), 'brief': brief(unhex_floats(out), 400), 'lines': lc.n}

    def compute_refs(self, trace):
        refs = {}
        self._cur_shared = trace['shared']
        for op in trace['ops']:
            key = self._opkey(op, trace)
            if key in refs:
                continue
            st, payload = kernel.run_isolated(self._ref_child, op, 30)
            if st != 'ok':
                raise kernel.HarnessError('reference evaluation of %s failed: %s %s' % (op['kind'], st, str(payload)[:800]))
            refs[key] = payload
        return refs

    @staticmethod
    def _resolve_shared(v, shared):
        if isinstance(v, dict) and '$shared' in v:
            return shared[v['$shared']]
        return v

    def _opkey(self, op, trace):
        return jdump([op['kind'], [self._resolve_shared(a, trace['shared']) for a in op['args']]])

    # ---------------------------------------------------------------- execute
    def execute(self, trace):
        undo = self.fs.install_global_seam(patch_getcwd=False)    # storage reached by another route than ntv2reader.open
        try:
            return self._execute(trace)
        finally:
            undo()

    def _execute(self, trace):
        env = self.env
        env.grid_share = {} if trace.get('share_grid') else None
        log = EventLog()
        T = trace['threads']
        ops = trace['ops']
        viol = []
        stats = {}
        sets = {}

        def bump(k, n=1):
            stats[k] = stats.get(k, 0) + n

        refs = self.compute_refs(trace)
        env.reset_shared(trace['shared'])
        # decider
        sm = trace['sched']['mode']
        instr = trace.get('granularity') == 'instr'
        expected_steps = int(sum(refs[self._opkey(o, trace)].get('lines', 0) for o in ops) * (6.6 if instr else 1)) + 10
        if sm == 'rng':
            decider = draw_decider(random.Random(trace['sched']['seed']), T, horizon=expected_steps)
        elif sm == 'preempt':
            L = refs[self._opkey(ops[0], trace)].get('lines', 0) * (6.6 if instr else 1) if ops else 0
            pnt = 1 + int(trace['sched']['frac'] * max(L, 1))
            sw = [[0, pnt, 1]] + ([[1, pnt, 0]] if trace['sched'].get('diag') else [])
            decider = Replay(sw) if T > 1 else Decider()
        elif sm == 'rr':
            decider = RoundRobin(None, trace['sched'].get('q', 1)) if T > 1 else Decider()
        elif sm == 'rw':
            from detsim.sched import RandomWalk
            decider = RandomWalk(random.Random(trace['sched']['seed']), trace['sched'].get('p', 0.5)) if T > 1 else Decider()
        else:
            decider = Replay(trace.get('switches', []))
        # faults
        fault_map = {}
        stalls = []
        op_by_id = dict((o['id'], o) for o in ops)
        for f in trace.get('faults', []):
            if f['kind'] == 'stall':
                if f['thread'] < T:
                    stalls.append([f['at'], f['thread'], f['for']])
                continue
            o = op_by_id.get(f['op'])
            if o is None:
                continue
            r = refs[self._opkey(o, trace)]
            if r['status'] != 'ok' or r['lines'] < 1:
                continue
            line = 1 + int(f['frac'] * r['lines'])
            fault_map[(o['id'], min(line, r['lines']))] = f['kind']
        if instr:
            fault_map = {}
        sched = Sched(T, decider, log, self.is_sut_file, max_steps=RUN_STEP_BUDGET * (2 if instr else 1), faults=fault_map,
                      stalls=stalls, opcode_salt=None, instruction_codes=self.sut_codes if instr else None)
        self.cur_sched = sched
        self.barrier_hits = []
        per_thread = [[o for o in ops if o['thread'] % T == t] for t in range(T)]
        log.add('cfg', T, len(ops), decider.describe(), sorted(fault_map.items()), stalls)
        inflight_pairs = set()
        probe = {'shared_overlap': 0, 'two_trans': 0, 'same_kind': 0}
        cur_kind = [None] * T
        cur_shared = [()] * T

        def on_switch(a, b):
            ka, kb = cur_kind[a], cur_kind[b]
            if ka is not None and kb is not None:
                inflight_pairs.add((ka, kb) if ka <= kb else (kb, ka))
                switch_seq.append((ka, kb))
                if cur_shared[a] and set(cur_shared[a]) & set(cur_shared[b]):
                    probe['shared_overlap'] += 1
                if ('ransform' in ka) and ('ransform' in kb):
                    probe['two_trans'] += 1
                if ka == kb:
                    probe['same_kind'] += 1

        switch_seq = []
        sched.on_switch = on_switch
        last_fast = [self.base_fast]
        canon = self.canon
        outcomes = {}

        def check_o1(tag, op):
            # barrier events (precise: thread, op, line; transient writes included)
            if self.barrier_hits:
                hits, self.barrier_hits = self.barrier_hits, []
                for h in hits:
                    viol.append({'oracle': 'O1-constant-written', 'site': '%s.%s' % (h['const'], h['attr']), 'detail': h})
                    log.add('O1w', h['const'], h['attr'], h['where'])
            cur = self.fast_snapshot()
            if cur != last_fast[0]:
                for (name, _), a, b in zip(self.cat_objs, last_fast[0], cur):
                    if a != b:
                        viol.append({'oracle': 'O1-constant-changed', 'site': name,
                                     'detail': {'after': tag, 'op': op and op['kind'],
                                                'now': brief(unhex_floats(canon.canon(getattr(env.constants, name, None), by_name=False)), 500)}})
                        log.add('O1c', name)
                last_fast[0] = cur

        def run_op(tid, op):
            kind = op['kind']
            try:
                args = [ops_mod.materialise(a, env) for a in op['args']]
            except Exception as e:   # literal cannot be built (only after shrinking): skip
                log.add('skip', op['id'], type(e).__name__)
                return
            before = [canon.canon(a) for a in args]
            cur_kind[tid] = kind
            cur_shared[tid] = tuple(a['$shared'] for a in op['args'] if isinstance(a, dict) and '$shared' in a)
            log.add('op+', tid, op['id'], kind)
            target = ops_mod.OPS[kind][0]
            fn = ops_mod.resolve(target, env)
            status = 'ok'
            res = None
            sched.begin_op(tid, op['id'])
            try:
                try:
                    res = fn(*args)
                finally:
                    sched.end_op(tid)
                out = ['ok', canon.canon(res)]
            except SimCancelled:
                status, out = 'cancelled', None
            except StepBudgetExceeded:
                status, out = 'budget', None
                # bounded liveness: the call alone needed r['lines'] line events in a pristine process;
                # if it has consumed far more than that here without finishing, it makes no progress
                # (spins on hidden state another caller left behind).  Line mode only.
                r = refs.get(self._opkey(op, trace), {})
                if not instr and r.get('status') == 'ok' and sched.opline[tid] > 20 * r['lines'] + 20000:
                    viol.append({'oracle': 'O4-no-progress', 'site': kind,
                                 'detail': {'op': op['id'], 'thread': tid, 'line_events_used': sched.opline[tid],
                                            'line_events_alone': r['lines']}})
                    log.add('O4', kind, op['id'])
            except MemoryError as e:
                if 'simulated allocation failure' in str(e):
                    status, out = 'oom', None
                else:
                    out = ['exc', canon.canon(e)]
            except Exception as e:
                out = ['exc', canon.canon(e)]
            cur_kind[tid] = None
            cur_shared[tid] = ()
            injected = any(f[1] == op['id'] for f in sched.fired)
            if injected and status == 'ok':
                status = 'fault-absorbed'     # repo code caught the injected error: outcome not comparable
            bump('ops_' + status)
            after = [canon.canon(a) for a in args]
            log.add('op-', tid, op['id'], status, short_hash(out, 16) if out is not None else '-')
            # O2 arguments untouched
            for k, (b, a) in enumerate(zip(before, after)):
                if b != a and not self._only_new_private(b, a):
                    viol.append({'oracle': 'O2-argument-mutated', 'site': '%s#arg%d' % (kind, k),
                                 'detail': {'status': status, 'before': brief(unhex_floats(b), 300), 'after': brief(unhex_floats(a), 300)}})
                    log.add('O2', kind, k)
            # O1
            check_o1('op %d %s (%s)' % (op['id'], kind, status), op)
            # O3 bit-identical to the pristine evaluation
            if status == 'ok':
                r = refs[self._opkey(op, trace)]
                if r['status'] == 'ok':
                    d = short_hash(out, 24)
                    if d != r['digest']:
                        viol.append({'oracle': 'O3-result-differs-from-pristine', 'site': kind,
                                     'detail': {'op': op['id'], 'thread': tid, 'threads': T,
                                                'in_history': brief(unhex_floats(out), 400), 'pristine': r['brief']}})
                        log.add('O3', kind, op['id'])
                    else:
                        bump('o3_compared')
                else:
                    bump('ops_dropped_reference_over_budget')
                if trace.get('scribble') and out[0] == 'ok':
                    # the caller owns what it was handed back: overwrite every array / list / dict in the
                    # result.  A function that hands out a cached or module-level object now has altered
                    # hidden state, which a later call (or the snapshots) exposes.
                    n = self._scribble(res, args)
                    if n:
                        bump('results_scribbled', n)

        def body(tid):
            for op in per_thread[tid]:
                run_op(tid, op)

        ps0 = self.process_state()
        self.barrier_on = True
        try:
            sched.run([body] * T, wall_timeout=self.run_timeout - 15)
        except RuntimeError as e:
            raise kernel.HarnessError(str(e))
        finally:
            self.barrier_on = False
            self.cur_sched = None
        check_o1('end of run', None)
        # interpreter-wide state
        ps = self.process_state()
        for k in sorted(ps0):
            if ps[k] != ps0[k]:
                viol.append({'oracle': 'O1-process-state-changed', 'site': k, 'detail': {'before': ps0[k][:300], 'after': ps[k][:300]}})
                log.add('O1p', k)
        # module-level library data
        snap = self.module_snapshot()
        for key, (dg, judged) in self.base_mod.items():
            now = snap.get(key)
            if now is None or now[0] != dg:
                if judged:
                    viol.append({'oracle': 'O1-module-data-changed', 'site': key,
                                 'detail': {'now': 'deleted' if now is None else 'changed'}})
                    log.add('O1m', key)
                else:
                    bump('tolerated_private_state_changes')
        for key in snap:
            if key not in self.base_mod:
                bump('tolerated_new_module_names')
        # ---- bookkeeping ----------------------------------------------------
        fired_kinds = sorted(set(f[0] for f in sched.fired))
        for f in sched.fired:
            bump('fault:' + f[0])
            if f[3].startswith('constants.py'):
                bump('probe:cancel_fired_inside_constants_py')
        if len(stalls) - len(sched.stalls) > 0:
            bump('fault:stall', len(stalls) - len(sched.stalls))
        bump('steps', sched.steps)
        bump('context_switches', sched.nswitch)
        bump('threads_total', T)
        bump('ops_total', len(ops))
        if any(s[0] == 'constants.py' for s in sched.sites):
            bump('probe:preempt_inside_constants_py')
        if any(s[0] == 'transform.py' for s in sched.sites):
            bump('probe:preempt_inside_transform_py')
        if probe['shared_overlap']:
            bump('probe:shared_argument_in_flight_on_two_threads')
        if probe['two_trans']:
            bump('probe:two_transformation_ops_in_flight')
        if probe['same_kind']:
            bump('probe:same_kind_in_flight_on_two_threads')
        if any('near_repeat_of' in o for o in ops):
            bump('probe:near_repeat_op')
        if any(o.get('bad_argument') for o in ops) or (trace.get('pair_sweep') and not trace.get('faults') and T == 1 and len(ops) >= 8):
            bump('probe:history_contains_call_with_wrong_typed_argument')
        if trace.get('pair_sweep'):
            bump('pair_sweep_runs')
            if trace.get('sibling_sweep'):
                bump('sibling_sweep_runs')
                if len(ops) >= 2 and ops[0]['args'] == ops[1]['args']:
                    bump('sibling_sweep_runs_with_identical_arguments')
        elif trace.get('focus'):
            bump('focused_runs')
        if any('repeat_of' in o and op_by_id.get(o['repeat_of'], o)['thread'] % T != o['thread'] % T for o in ops):
            bump('probe:repeat_on_other_thread')
        if any(o['kind'] in ('transform.conform7', 'transform.conform14') and len(o['args']) > (4 if o['kind'].endswith('7') else 5)
               for o in ops):
            bump('probe:covariance_with_sd_op')
        if instr:
            bump('instruction_granularity_runs')
            bump('instruction_steps', sched.steps)
        if sched.budget_hit:
            bump('runs_hitting_step_budget')
        sets['op_kinds'] = sorted(set(o['kind'] for o in ops))
        sets['inflight_kind_pairs'] = sorted('%s|%s' % p for p in inflight_pairs)
        sets['preemption_sites'] = sorted('%s:%d' % s for s in sched.sites)
        sets['strategies'] = [decider.describe()]
        kinds_per_thread = [[o['kind'] for o in lst] for lst in per_thread]
        sig = short_hash([kinds_per_thread, switch_seq, fired_kinds], 20)
        repeats = any('repeat_of' in o for o in ops) or bool(trace['shared'])
        nontrivial = len(ops) >= 2 and ((T == 1 and (repeats or len(ops) >= 2)) or (T > 1 and len(switch_seq) >= 1))
        recorded = dict(trace)
        recorded['sched'] = {'mode': 'replay', 'strategy': decider.describe()}
        recorded['switches'] = decider.switches if sm != 'replay' else trace.get('switches', [])
        sample = {'threads': T, 'strategy': decider.describe(),
                  'ops': [[o['thread'] % T, o['kind'], o['args']] for o in ops[:6]],
                  'n_ops': len(ops), 'faults': trace.get('faults', [])[:4],
                  'switches_excerpt': recorded['switches'][:8], 'n_switches': sched.nswitch, 'steps': sched.steps}
        log.add('end', len(viol), sched.steps, sched.nswitch)
        return {'digest': log.digest(), 'violations': viol[:40], 'stats': stats, 'sets': sets, 'sig': sig,
                'nontrivial': nontrivial, 'sample': sample, 'recorded': recorded}

    def _reachable_ids(self, objs, depth=0, acc=None):
        """ids of every object reachable from the caller's arguments (so that the harness never
        scribbles on something the caller had before the call - aliasing an argument is legal)"""
        acc = set() if acc is None else acc
        for o in objs:
            if id(o) in acc or depth > 4:
                continue
            acc.add(id(o))
            if isinstance(o, (list, tuple)):
                self._reachable_ids(o, depth + 1, acc)
            elif isinstance(o, dict):
                self._reachable_ids(list(o.values()), depth + 1, acc)
            elif self.canon.is_repo_class(type(o)):
                self._reachable_ids(list(obj_state(o).values()), depth + 1, acc)
        return acc

    def _scribble(self, res, args, depth=0, mine=None):
        """The caller owns what it was handed back.  Overwrite returned arrays / lists / dicts and the
        numeric attributes of returned repository objects - but nothing that is (part of) an argument
        or a shipped constant, and nothing nested inside a returned repository object (the library
        documents that e.g. a negated transformation shares the uncertainty object of its source)."""
        np = self.env.np
        if mine is None:
            mine = self._reachable_ids(args)
        if depth > 4 or res is None or id(res) in self.cat or id(res) in mine:
            return 0
        n = 0
        if isinstance(res, np.ndarray):
            if res.dtype.kind in 'fiu' and res.flags.writeable and not any(
                    isinstance(a, np.ndarray) and np.may_share_memory(res, a) for a in args):
                res[...] = 7
                return 1
            return 0
        if isinstance(res, list):
            for x in res:
                n += self._scribble(x, args, depth + 1, mine)
            res.append('scribbled-by-caller')
            return n + 1
        if isinstance(res, dict):
            for x in list(res.values()):
                n += self._scribble(x, args, depth + 1, mine)
            res['scribbled-by-caller'] = True
            return n + 1
        if isinstance(res, tuple):
            for x in res:
                n += self._scribble(x, args, depth + 1, mine)
            return n
        if self.canon.is_repo_class(type(res)) and not isinstance(res, (float, int, str)):
            d = obj_state(res)
            for k in sorted(d):
                v = d[k]
                if isinstance(v, bool) or not isinstance(v, (int, float)):
                    continue
                try:
                    setattr(res, k, v + 0.25)
                    n += 1
                except Exception:
                    pass
        return n

    @staticmethod
    def _only_new_private(b, a):
        """tolerate a *new* underscore-prefixed attribute on an argument object"""
        try:
            if b[0] == 'obj' and a[0] == 'obj' and b[1] == a[1]:
                bd = dict((k, v) for k, v in b[-1][1:])
                ad = dict((k, v) for k, v in a[-1][1:])
                if b[2:-1] != a[2:-1]:
                    return False
                for k in bd:
                    if k not in ad or ad[k] != bd[k]:
                        return False
                return all(k.startswith('_') for k in ad if k not in bd)
        except Exception:
            return False
        return False

    # ---------------------------------------------------------------- shrinking
    def shrink_fields(self, trace):
        return ['faults', 'ops', 'switches']

    def simplify(self, trace):
        # fewer threads: fold everything onto fewer threads
        T = trace['threads']
        if T > 1:
            for nt in (1, 2):
                if nt < T:
                    t2 = dict(trace)
                    t2['threads'] = nt
                    t2['switches'] = [s for s in trace.get('switches', []) if s[0] < nt and s[2] < nt]
                    yield t2
        if trace.get('opcode_salt'):
            t2 = dict(trace)
            t2['opcode_salt'] = None
            yield t2

    # ----------------------------------------------------------------- canaries
    def canaries(self):
        ops_mod.OPS.setdefault('canary.racy_scratch', ('f:canary.racy_scratch', None))
        ops_mod.OPS.setdefault('canary.sorts_argument', ('f:canary.sorts_argument', None))
        ops_mod.OPS.setdefault('canary.touches_constant', ('f:canary.touches_constant', None))
        ops_mod.OPS.setdefault('canary.coarse_memo', ('f:canary.coarse_memo', None))
        ops_mod.OPS.setdefault('canary.one_line_race', ('f:canary.one_line_race', None))

        def tr(T, ops, sched):
            return {'property': 'C09', 'threads': T, 'ops': ops, 'shared': [], 'faults': [], 'sched': sched,
                    'switches': [], 'opcode_salt': None}
        return [
            ('racy module-level scratch (needs an interleaving)',
             tr(2, [{'id': 0, 'kind': 'canary.racy_scratch', 'args': [1.5], 'thread': 0},
                    {'id': 1, 'kind': 'canary.racy_scratch', 'args': [2.5], 'thread': 1}], {'mode': 'rr', 'q': 2}),
             ['O3-result-differs-from-pristine']),
            ('function sorts its argument',
             tr(1, [{'id': 0, 'kind': 'canary.sorts_argument', 'args': [[3.0, 1.0, 2.0]], 'thread': 0}], {'mode': 'rr'}),
             ['O2-argument-mutated']),
            ('transient write to a shipped constant',
             tr(1, [{'id': 0, 'kind': 'canary.touches_constant', 'args': [6378000.0], 'thread': 0}], {'mode': 'rr'}),
             ['O1-constant-written']),
            ('single-line read-modify-write race (needs instruction-level pre-emption)',
             dict(tr(2, [{'id': 0, 'kind': 'canary.one_line_race', 'args': [1.5], 'thread': 0},
                         {'id': 1, 'kind': 'canary.one_line_race', 'args': [2.5], 'thread': 1}], {'mode': 'rr', 'q': 3}),
                  granularity='instr'),
             ['O3-result-differs-from-pristine']),
            ('memo keyed too coarsely (needs a history)',
             tr(1, [{'id': 0, 'kind': 'canary.coarse_memo', 'args': [298.25, 10.0], 'thread': 0},
                    {'id': 1, 'kind': 'canary.coarse_memo', 'args': [297.0, 10.0], 'thread': 0}], {'mode': 'rr'}),
             ['O3-result-differs-from-pristine']),
        ]


CHECK = C09()
