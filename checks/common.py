"""Shared driver for the four detsim checks: tiers, batch execution, self-tests
(determinism + canaries), minimisation, replay files, known findings, evidence.

Exit codes: 0 held (possibly with KNOWN-FINDING lines), 1 violation,
2 harness error (time-out, worker death, self-test failure).  2 is never a pass.
"""
import argparse
import collections
import copy
import json
import os
import re
import subprocess
import sys
import time

from detsim import kernel
from detsim.kernel import HarnessError, derive_rng, jdump, short_hash

VERIF = kernel.VERIF
REPLAY_DIR = os.path.join(VERIF, 'replays')
EVIDENCE_DIR = os.path.join(VERIF, 'evidence')
KNOWN_FILE = os.path.join(VERIF, 'known_findings.json')


class CheckBase(object):
    id = 'C00'
    title = ''
    quick_runs = 100
    thorough_runs = 1000
    quick_budget_s = 60         # wall budget of the main batch (cut-off, not a verdict)
    thorough_budget_s = 900
    run_timeout = 60            # per simulated run; expiry = harness error
    det_sample_quick = 16

    def hash_order_sensitive(self, trace):
        return False
    det_sample_thorough = 128
    components = {}
    assumptions = []
    rule = ''
    simulated_time_note = ''

    # ---- to be provided by the concrete check -----------------------------
    def setup_process(self):
        """Import the system under test and install the seams (zygote, once)."""
        raise NotImplementedError

    def generate(self, rng, i, tier):
        raise NotImplementedError

    def execute(self, trace):
        """-> dict(digest, violations=[{oracle, site, detail}], stats={}, sig,
        nontrivial, sample, recorded=<trace in replay form>)"""
        raise NotImplementedError

    def canaries(self):
        """-> list of (name, trace) that MUST each yield >= 1 violation with an
        oracle name listed in expected (name, trace, expected_oracles)."""
        return []

    def shrink_fields(self, trace):
        """names of list-valued trace fields that ddmin may thin out, in order"""
        return ['faults', 'ops', 'switches']

    def simplify(self, trace):
        """optional: yield simpler variants of the trace (argument simplification)"""
        return []

    def post_aggregate(self, agg):
        """optional: extra evidence keys; may raise HarnessError for dead probes"""
        return {}

    # ---- helpers ----------------------------------------------------------
    @staticmethod
    def vkey(v):
        return (v['oracle'], v['site'])


# ---------------------------------------------------------------------------
# known findings
# ---------------------------------------------------------------------------

def load_known(prop):
    if not os.path.exists(KNOWN_FILE):
        return []
    with open(KNOWN_FILE) as f:
        data = json.load(f)
    return [k for k in data.get('known', []) if k.get('property') == prop]


def match_known(known, v):
    for k in known:
        m = k.get('match', {})
        if 'oracle' in m and not re.fullmatch(m['oracle'], v['oracle']):
            continue
        if 'site' in m and not re.fullmatch(m['site'], v['site']):
            continue
        if 'detail' in m and not re.search(m['detail'], json.dumps(v.get('detail'))):
            continue
        return k
    return None


# ---------------------------------------------------------------------------
# running single traces
# ---------------------------------------------------------------------------

def _exec_trace(args):
    check, trace = args
    return check.execute(trace)


def exec_isolated(check, trace, timeout=None):
    st, payload = kernel.run_isolated(_exec_trace, (check, trace), timeout or check.run_timeout)
    if st != 'ok':
        raise HarnessError('replay of a trace failed in the harness: %s %s' % (st, payload))
    return payload


def has_key(res, key):
    return any(CheckBase.vkey(v) == key for v in res['violations'])


# ---------------------------------------------------------------------------
# minimisation (delta debugging over ops / faults / switches, then arguments)
# ---------------------------------------------------------------------------

def minimise(check, trace, key, max_replays=300, max_wall=120):
    t0 = time.monotonic()
    n = [0]

    exhausted = [False]

    def fails(tr):
        if n[0] >= max_replays or time.monotonic() - t0 > max_wall:
            exhausted[0] = True
            return False
        n[0] += 1
        try:
            res = exec_isolated(check, tr)
        except HarnessError:
            return False
        return has_key(res, key)

    cur = copy.deepcopy(trace)
    changed = True
    rounds = 0
    while changed and rounds < 4 and not exhausted[0]:
        changed = False
        rounds += 1
        for field in check.shrink_fields(cur):
            items = cur.get(field)
            if not items:
                continue
            # try dropping everything first
            cand = dict(cur)
            cand[field] = []
            if len(items) > 0 and fails(cand):
                cur = cand
                changed = True
                continue
            gran = 2
            # very long lists (recorded context switches of a run that spun up to its step budget) are
            # only thinned down to chunks of 1/128 of their length: each candidate costs a full replay
            min_chunk = max(1, len(items) // 128) if len(items) > 2000 else 1
            while len(items) >= 2 and gran <= len(items) * 2 and not exhausted[0]:
                chunk = max(min_chunk, len(items) // gran)
                reduced = False
                for start in range(0, len(items), chunk):
                    if exhausted[0]:
                        break
                    sub = items[:start] + items[start + chunk:]
                    if not sub and field == 'ops':
                        continue
                    cand = dict(cur)
                    cand[field] = sub
                    if fails(cand):
                        items = sub
                        cur = cand
                        changed = True
                        reduced = True
                        gran = max(2, gran - 1)
                        break
                if not reduced:
                    if chunk <= min_chunk:
                        break
                    gran = min(len(items), gran * 2)
        for cand in check.simplify(cur):
            if exhausted[0]:
                break
            if fails(cand):
                cur = cand
                changed = True
    return cur, n[0]


# ---------------------------------------------------------------------------
# the batch
# ---------------------------------------------------------------------------

class Aggregate(object):
    def __init__(self):
        self.evaluations = 0
        self.sigs = set()
        self.stats = collections.Counter()
        self.sets = collections.defaultdict(set)
        self.samples = []
        self._sample_kinds = set()
        self.violations = []      # (i, violation, recorded trace)
        self.digests = {}
        self.harness = []
        self.nontrivial = 0

    def add(self, i, res):
        st, payload = res
        if st != 'ok':
            self.harness.append((i, st, str(payload)[:2000]))
            return
        r = payload
        self.evaluations += 1
        self.digests[i] = r['digest']
        if r.get('nontrivial'):
            self.nontrivial += 1
            self.sigs.add(r['sig'])
        for k, v in r.get('stats', {}).items():
            self.stats[k] += v
        for k, v in r.get('sets', {}).items():
            self.sets[k].update(v)
        if r.get('sample') is not None:
            # keep a few samples of different character (plain / multi-threaded / faulted / fired)
            smp = r['sample']
            kind = (bool(smp.get('faults')), (smp.get('threads') or smp.get('clients') or 1) > 1, bool(smp.get('n_switches')))
            if kind not in self._sample_kinds and len(self.samples) < 6:
                self._sample_kinds.add(kind)
                self.samples.append(smp)
        for v in r['violations']:
            self.violations.append((i, v, r.get('recorded')))


def _run_index(args):
    check, seed, tier, i = args
    rng = derive_rng(seed, check.id, i)
    trace = check.generate(rng, i, tier)
    res = check.execute(trace)
    if not res['violations']:
        res.pop('recorded', None)
    return res


class _Runner(object):
    """picklable-free closure for run_pool (workers are forked, nothing is pickled on the way in)"""

    def __init__(self, check, seed, tier):
        self.check, self.seed, self.tier = check, seed, tier

    def __call__(self, i):
        return _run_index((self.check, self.seed, self.tier, i))


def digests_for(check, seed, tier, indices, nproc):
    out = {}
    res = kernel.run_pool(_Runner(check, seed, tier), indices, nproc, run_timeout=check.run_timeout)
    for i, (st, payload) in res.items():
        if st != 'ok':
            raise HarnessError('run %d failed in determinism self-test: %s %s' % (i, st, str(payload)[:1500]))
        out[i] = payload['digest']
    return out


def fresh_interpreter_digests(check, seed, tier, indices, hashseed, nproc):
    env = dict(os.environ)
    env['PYTHONHASHSEED'] = str(hashseed)
    env['VERIF_SEED'] = str(seed)
    env['VERIF_NO_REEXEC'] = '1'
    cmd = [sys.executable, '-m', 'checks.main', check.id, '--tier', tier,
           '--digests', ','.join(map(str, indices)), '--nproc', str(nproc)]
    p = subprocess.run(cmd, cwd=VERIF, env=env, stdout=subprocess.PIPE, stderr=subprocess.PIPE,
                       timeout=600)
    if p.returncode != 0:
        raise HarnessError('fresh-interpreter digest run failed (%d): %s' % (p.returncode, p.stderr.decode()[-1500:]))
    line = [l for l in p.stdout.decode().splitlines() if l.startswith('DIGESTS ')]
    if not line:
        raise HarnessError('fresh-interpreter digest run printed nothing')
    return {int(k): v for k, v in json.loads(line[-1][8:]).items()}


def write_replay(check, trace, key, seed, i, res):
    os.makedirs(REPLAY_DIR, exist_ok=True)
    body = {'property': check.id, 'seed': seed, 'run': i, 'violation_key': list(key),
            'violations': [v for v in res['violations'] if CheckBase.vkey(v) == key][:3],
            'digest': res['digest'], 'trace': trace}
    name = '%s-%s-%s-%s.json' % (check.id, seed, i, short_hash(body['trace'], 8))
    path = os.path.join(REPLAY_DIR, name)
    with open(path, 'w') as f:
        json.dump(body, f, indent=1, sort_keys=True)
    return path


def replay_file(check, path):
    with open(path) as f:
        body = json.load(f)
    trace = body['trace']
    key = tuple(body['violation_key'])
    res = exec_isolated(check, trace)
    same = has_key(res, key)
    print('REPLAY property=%s file=%s digest=%s recorded_digest=%s reproduced=%s' % (
        check.id, path, res['digest'], body.get('digest'), same))
    for v in res['violations'][:5]:
        print('  violation oracle=%s site=%s detail=%s' % (v['oracle'], v['site'], json.dumps(v.get('detail'))[:600]))
    if same:
        print('VIOLATION property=%s replay=%s' % (check.id, path))
        return 1
    return 0


def run_check(check, argv):
    ap = argparse.ArgumentParser()
    ap.add_argument('--tier', default=os.environ.get('VERIF_TIER', 'quick'))
    ap.add_argument('--replay')
    ap.add_argument('--runs', type=int)
    ap.add_argument('--budget', type=float)
    ap.add_argument('--digests')
    ap.add_argument('--nproc', type=int, default=int(os.environ.get('VERIF_NPROC', '0')) or (os.cpu_count() or 4))
    ap.add_argument('--no-selftest', action='store_true')
    ap.add_argument('--no-evidence', action='store_true')
    args = ap.parse_args(argv)
    tier = args.tier if args.tier in ('quick', 'thorough') else 'quick'
    seed = int(os.environ.get('VERIF_SEED', '0') or 0)
    t0 = time.time()
    print('detsim check %s tier=%s VERIF_SEED=%d repo=%s nproc=%d' % (check.id, tier, seed, kernel.REPO, args.nproc))
    sys.stdout.flush()
    try:
        check.setup_process()
        if args.replay:
            return replay_file(check, args.replay)
        if args.digests:
            idx = [int(x) for x in args.digests.split(',') if x != '']
            d = digests_for(check, seed, tier, idx, args.nproc)
            print('DIGESTS ' + json.dumps({str(k): v for k, v in d.items()}))
            return 0
        return _main_batch(check, args, tier, seed, t0)
    except HarnessError as e:
        print('HARNESS-ERROR property=%s %s' % (check.id, e))
        return 2


def _main_batch(check, args, tier, seed, t0):
    nruns = args.runs or (check.quick_runs if tier == 'quick' else check.thorough_runs)
    budget = args.budget or (check.quick_budget_s if tier == 'quick' else check.thorough_budget_s)
    known = load_known(check.id)
    selftest = {'canaries': {}, 'determinism': {}}

    # ---- self-test 1: canaries (the oracle can fire) ----------------------
    if not args.no_selftest:
        for name, trace, expected in check.canaries():
            res = exec_isolated(check, trace)
            got = sorted(set(v['oracle'] for v in res['violations']))
            ok = any(o in got for o in expected)
            selftest['canaries'][name] = {'expected_any_of': expected, 'got': got, 'ok': ok}
            if not ok:
                raise HarnessError('canary %s not detected (expected one of %s, got %s)' % (name, expected, got))

    # ---- main batch ----------------------------------------------------------
    agg = Aggregate()
    tb = time.time()
    kernel.run_pool(_Runner(check, seed, tier), range(nruns), args.nproc,
                    run_timeout=check.run_timeout, wall_budget=budget, on_result=agg.add)
    batch_wall = time.time() - tb
    # A run that hit a WALL-CLOCK limit (the per-run time-out of the pool, or the scheduler's "threads did not
    # finish within N s") says something about the load on the machine, not about the code: runs are pure
    # functions of the seed, so such a run is executed once more, alone, with three times the allowance.  A
    # harness fault or a real hang fails again and is reported as before.
    slow = [h for h in agg.harness if h[1] == 'timeout' or 'did not finish within' in h[2] or 'timed out' in h[2]]
    if slow and len(slow) <= 20:
        agg.harness = [h for h in agg.harness if h not in slow]
        saved_to = check.run_timeout
        check.run_timeout = saved_to * 3
        try:
            for (i, st, msg) in slow:
                res = kernel.run_isolated(_Runner(check, seed, tier), i, check.run_timeout + 30)
                agg.add(i, res)
                agg.stats['runs_repeated_after_wall_clock_limit'] += 1
        finally:
            check.run_timeout = saved_to
    if agg.harness:
        for h in agg.harness[:5]:
            print('HARNESS run=%s status=%s %s' % h)
        raise HarnessError('%d simulated runs failed inside the harness' % len(agg.harness))
    if agg.evaluations == 0:
        raise HarnessError('no run completed')

    # ---- self-test 2: determinism -------------------------------------------
    if not args.no_selftest:
        k = check.det_sample_quick if tier == 'quick' else check.det_sample_thorough
        done = sorted(agg.digests)
        step = max(1, len(done) // k)
        sample = done[::step][:k]
        again = digests_for(check, seed, tier, sample, max(2, args.nproc // 2 + 1))
        fsample = sample[:max(4, k // 2)]
        # runs whose course depends on the iteration order of a set of strings INSIDE the code under test are
        # repeated under the pinned hash seed (bin/check pins PYTHONHASHSEED=0: the hash seed is part of the
        # simulated environment); every other run under another one, which is what exposes a harness that
        # leans on hash order
        pinned = [i for i in fsample if check.hash_order_sensitive(check.generate(derive_rng(seed, check.id, i), i, tier))]
        other = [i for i in fsample if i not in set(pinned)]
        fresh = fresh_interpreter_digests(check, seed, tier, other, 4242, max(2, args.nproc // 3)) if other else {}
        if pinned:
            fresh.update(fresh_interpreter_digests(check, seed, tier, pinned, 0, max(2, args.nproc // 3)))
        bad = [i for i in sample if again.get(i) != agg.digests[i]]
        bad2 = [i for i in fresh if fresh[i] != agg.digests[i]]
        selftest['determinism'] = {'sampled_runs': len(sample), 'second_execution_other_worker_layout_mismatches': len(bad),
                                   'fresh_interpreter_other_PYTHONHASHSEED_runs': len(other),
                                   'fresh_interpreter_pinned_PYTHONHASHSEED_runs': len(pinned),
                                   'fresh_interpreter_mismatches': len(bad2)}
        if bad or bad2:
            raise HarnessError('determinism self-test failed: runs %s / %s have differing digests' % (bad[:5], bad2[:5]))

    # ---- violations: classify, minimise, replay -----------------------------
    exit_code = 0
    by_key = collections.OrderedDict()
    for i, v, rec in agg.violations:
        by_key.setdefault(CheckBase.vkey(v), []).append((i, v, rec))
    reported = []
    min_deadline = time.time() + (240 if tier == 'quick' else 900)    # total wall budget for minimisation
    if by_key:
        print('violation classes (oracle @ site : runs):')
        for key, lst in list(by_key.items())[:80]:
            print('  %s @ %s : %d' % (key[0], key[1], len(lst)))
    known_hit = collections.Counter()
    nviol = 0
    for key, lst in by_key.items():
        kf = match_known(known, lst[0][1])
        if kf is not None and all(match_known(known, v) is kf for _, v, _ in lst):
            known_hit[kf['what']] += len(lst)
            continue
        nviol += 1
        if len(reported) >= 6:
            continue
        # choose the smallest recorded trace of this class
        i, v, rec = min(lst, key=lambda t: len(jdump(t[2])) if t[2] else 1 << 30)
        replayable = True
        try:
            first = None
            for attempt in range(4):
                first = exec_isolated(check, rec)
                if has_key(first, key):
                    break
            if not has_key(first, key):
                # Observed in the batch but not when the recorded trace is executed again: the failure
                # depends on something outside the simulator's control (typically object addresses /
                # id() reuse).  It is still a violation; it is reported with the unminimised trace and
                # marked as not replayable rather than being hidden behind a harness error.
                replayable = False
                small, nrep = rec, 0
                final = {'violations': [v], 'digest': first['digest']}
                path = write_replay(check, small, key, seed, i, final)
            else:
                left = min_deadline - time.time()
                if left > 10:
                    small, nrep = minimise(check, rec, key, max_wall=min(120, left))
                else:
                    small, nrep = rec, 0      # minimisation budget of this check used up: report unminimised
                final = exec_isolated(check, small)
                if not has_key(final, key):
                    small, final = rec, first
                path = write_replay(check, small, key, seed, i, final)
                # replay once more in a fresh interpreter: must fail identically
                p = subprocess.run([sys.executable, '-m', 'checks.main', check.id, '--replay', path],
                                   cwd=VERIF, env=dict(os.environ, VERIF_NO_REEXEC='1'),
                                   stdout=subprocess.PIPE, stderr=subprocess.PIPE, timeout=300)
                if p.returncode != 1:
                    replayable = False
        except HarnessError as e:
            print('HARNESS-ERROR property=%s %s' % (check.id, e))
            return 2
        vv = [x for x in final['violations'] if CheckBase.vkey(x) == key][0]
        if not replayable:
            print('NOTE: the next violation was observed in the batch but does not replay deterministically '
                  '(depends on state outside the simulator, e.g. object addresses); trace is unminimised')
        print('violation: oracle=%s site=%s runs=%d first_run=%d minimised_with=%d replays' % (
            key[0], key[1], len(lst), i, nrep))
        print('  detail: %s' % json.dumps(vv.get('detail'))[:1200])
        print('VIOLATION property=%s replay=%s' % (check.id, path))
        reported.append(path)
        exit_code = 1
    for k in known:
        if known_hit.get(k['what']):
            print('KNOWN-FINDING: property=%s %s' % (check.id, k['what']))

    # ---- evidence ----------------------------------------------------------------
    wall = time.time() - t0
    extra = check.post_aggregate(agg)
    cov = {
        'evaluations': agg.evaluations,
        'distinct_nontrivial': len(agg.sigs),
        'rule': check.rule,
        'samples': agg.samples[:6],
        'runs_requested': nruns,
        'runs_completed': agg.evaluations,
        'runs_not_started_before_budget': nruns - agg.evaluations,
        'nontrivial_runs': agg.nontrivial,
        'runs_per_hour': int(agg.evaluations / max(batch_wall, 1e-6) * 3600),
        'seeds': {'VERIF_SEED': seed, 'derivation': 'Random(sha256("<seed>/%s/<run index>")), run indices 0..%d' % (check.id, nruns - 1)},
        'simulated_time': check.simulated_time_note,
        'faults_fired': {k[6:]: v for k, v in sorted(agg.stats.items()) if k.startswith('fault:')},
        'reach_probes': {k[6:]: v for k, v in sorted(agg.stats.items()) if k.startswith('probe:')},
        'counters': {k: v for k, v in sorted(agg.stats.items()) if not k.startswith(('fault:', 'probe:'))},
        'distinct_sets': {k: len(v) for k, v in sorted(agg.sets.items())},
        'components': check.components,
        'selftests': selftest,
        'known_findings_hit': dict(known_hit),
        'violation_classes': nviol,
        'replays': reported,
    }
    cov.update(extra)
    ev = {'property_id': check.id, 'tier': tier, 'seed': seed, 'level': 'exploration',
          'coverage': cov, 'assumptions': check.assumptions, 'wall_s': round(wall, 2),
          'violations': nviol}
    if not args.no_evidence:
        os.makedirs(EVIDENCE_DIR, exist_ok=True)
        tmp = os.path.join(EVIDENCE_DIR, check.id + '.json.tmp')
        with open(tmp, 'w') as f:
            json.dump(ev, f, indent=1, sort_keys=True, default=str)
        os.replace(tmp, os.path.join(EVIDENCE_DIR, check.id + '.json'))
    print('summary: runs=%d nontrivial=%d distinct_signatures=%d violation_classes=%d known_findings=%d wall=%.1fs (%d runs/h)' % (
        agg.evaluations, agg.nontrivial, len(agg.sigs), nviol, sum(known_hit.values()), wall, cov['runs_per_hour']))
    # dead probes are a harness problem in the thorough tier
    if tier == 'thorough' and not args.runs:
        dead = [k for k in getattr(check, 'required_probes', []) if not agg.stats.get('probe:' + k)]
        if dead:
            print('HARNESS-ERROR property=%s reach probes stuck at zero: %s' % (check.id, dead))
            return 2
    return exit_code
