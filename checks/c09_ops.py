"""C09 operation catalogue: every public function / method of the pure modules,
with valid-domain argument generators that emit JSON-literal (tagged) values,
and the materialiser that turns those literals into fresh caller-owned objects.

Tagged literals:
  {"$const": "grs80"}                    attribute of geodepy.constants (shipped constant)
  {"$angle": ["DMS", deg, min, sec]}     DMSAngle(deg, min, sec) ; also DEC/HP/GON/DDM, "DMSs" (string form)
  {"$array": [[...]]}                    numpy float64 array (caller-owned, mutable)
  {"$date": "2020-01-01"}                datetime.date
  {"$cls": "DMSAngle" | "float"}         a class object (notation arguments)
  {"$ell": [a, invf]}                    caller-built Ellipsoid
  {"$proj": [fe, fn, k0, zw, cm1]}       caller-built Projection
  {"$trans": {...}}                      caller-built Transformation (optionally with "sd": {...})
  {"$coord": ["Geo", lat, lon, h, H]}    coordinate object (nested literals allowed)
  {"$tuple": [...]}                      tuple ; plain JSON lists are Python lists (mutable, caller-owned)
  {"$shared": k}                         the k-th shared caller object of this run
  {"$grid": "std"}                       NTv2Grid read from the harness' SimFS file
"""
import datetime
import math
import operator

ANGLE_KINDS = ['DEC', 'HP', 'GON', 'DMS', 'DDM']


class Env(object):
    """Resolved modules + per-run shared objects."""

    def __init__(self):
        import numpy as np
        import geodepy.angles as angles
        import geodepy.constants as constants
        import geodepy.convert as convert
        import geodepy.geodesy as geodesy
        import geodepy.statistics as statistics
        import geodepy.survey as survey
        import geodepy.transform as transform
        import geodepy.coord as coord
        import geodepy.ntv2reader as ntv2reader
        self.np = np
        self.angles, self.constants, self.convert = angles, constants, convert
        self.geodesy, self.statistics, self.survey = geodesy, statistics, survey
        self.transform, self.coord, self.ntv2reader = transform, coord, ntv2reader
        self.mods = {'angles': angles, 'constants': constants, 'convert': convert, 'geodesy': geodesy,
                     'statistics': statistics, 'survey': survey, 'transform': transform, 'coord': coord}
        self.shared_lits = []
        self.shared_objs = {}
        self.grid_factory = None

    def reset_shared(self, lits):
        self.shared_lits = lits
        self.shared_objs = {}


def materialise(v, env):
    if isinstance(v, list):
        return [materialise(e, env) for e in v]
    if not isinstance(v, dict):
        return v
    if '$const' in v:
        return getattr(env.constants, v['$const'])
    if '$angle' in v:
        a = v['$angle']
        k = a[0]
        A = env.angles
        if k == 'DEC':
            return A.DECAngle(a[1])
        if k == 'HP':
            return A.HPAngle(a[1])
        if k == 'GON':
            return A.GONAngle(a[1])
        if k == 'DMS':
            return A.DMSAngle(*a[1:])
        if k == 'DMSs':
            return A.DMSAngle(a[1])
        if k == 'DDM':
            return A.DDMAngle(*a[1:])
        raise ValueError(k)
    if '$array' in v:
        np = env.np
        a = np.array(v['$array'], dtype=v.get('dtype', 'float64'), order=v.get('order', 'C'))
        if v.get('strided'):
            # a non-contiguous view into a larger caller-owned buffer
            base = np.zeros(tuple(2 * n for n in a.shape), dtype=a.dtype)
            view = base[tuple(slice(None, None, 2) for _ in a.shape)]
            view[...] = a
            a = view
        if v.get('readonly'):
            a.flags.writeable = False
        return a
    if '$date' in v:
        return datetime.date.fromisoformat(v['$date'])
    if '$cls' in v:
        return float if v['$cls'] == 'float' else getattr(env.angles, v['$cls'])
    if '$ell' in v:
        return env.constants.Ellipsoid(*v['$ell'])
    if '$proj' in v:
        return env.constants.Projection(*v['$proj'])
    if '$trans' in v:
        d = dict(v['$trans'])
        sd = d.pop('sd', None)
        d['ref_epoch'] = datetime.date.fromisoformat(d['ref_epoch'])
        if sd is not None:
            d['tf_sd'] = env.constants.TransformationSD(**sd)
        return env.constants.Transformation(**d)
    if '$coord' in v:
        c = v['$coord']
        args = [materialise(e, env) for e in c[1:]]
        return getattr(env.coord, 'Coord' + c[0])(*args)
    if '$num' in v:
        kind, x = v['$num']
        return {'f32': env.np.float32, 'f64': env.np.float64, 'int': int}[kind](x)
    if '$tuple' in v:
        return tuple(materialise(e, env) for e in v['$tuple'])
    if '$shared' in v:
        k = v['$shared']
        if k not in env.shared_objs:
            env.shared_objs[k] = materialise(env.shared_lits[k], env)
        return env.shared_objs[k]
    if '$grid' in v:
        return env.grid_factory(v['$grid'])
    if '$kw' in v:
        return v
    raise ValueError('unknown literal %r' % (v,))


# ---------------------------------------------------------------------------
# callables
# ---------------------------------------------------------------------------

def _method(name):
    def call(self, *a):
        return getattr(self, name)(*a)
    call.__name__ = 'method_' + name
    return call


_OPS2 = {'add': operator.add, 'sub': operator.sub, 'mul': operator.mul, 'truediv': operator.truediv,
         'mod': operator.mod, 'eq': operator.eq, 'ne': operator.ne, 'lt': operator.lt, 'gt': operator.gt}
_OPS1 = {'neg': operator.neg, 'abs': abs, 'str': str, 'repr': repr, 'int': int, 'float': float,
         'hash_free_round': round}


def resolve(target, env):
    kind, _, name = target.partition(':')
    if kind == 'f':
        mod, _, fn = name.partition('.')
        return getattr(env.mods[mod], fn)
    if kind == 'm':
        return _method(name)
    if kind == 'op2':
        return _OPS2[name]
    if kind == 'op1':
        return _OPS1[name]
    if kind == 'round':
        return round
    if kind == 'sum':
        return lambda lst, start: sum(lst, start)
    if kind == 'cls':
        mod, _, cn = name.partition('.')
        return getattr(env.mods[mod], cn)
    raise ValueError(target)


# ---------------------------------------------------------------------------
# value generators (rng -> literal)
# ---------------------------------------------------------------------------

ELLIPSOIDS = ['grs80', 'wgs84', 'ans', 'intl24']
DATED_SD = ['itrf2014_to_gda2020', 'atrf2014_to_gda2020', 'itrf2008_to_gda94', 'itrf2005_to_gda94',
            'itrf2000_to_gda94', 'itrf97_to_gda94', 'itrf96_to_gda94']


def r_float(rng, lo, hi, specials=()):
    if specials and rng.random() < 0.15:
        return rng.choice(specials)
    if rng.random() < 0.12:
        # exact binary fractions (k / 2**m): the inputs on which decimal / rounding rules hit exact ties
        m = rng.choice([1, 2, 3, 4, 8, 10, 12, 13, 14, 14, 14, 15, 16])
        span = max(1, int(min(abs(lo), abs(hi), 360) * 2 ** m)) if min(abs(lo), abs(hi)) >= 1 else int(max(abs(lo), abs(hi)) * 2 ** m)
        v = rng.randrange(-span, span + 1) / float(2 ** m) if lo < 0 else rng.randrange(0, max(1, int(hi * 2 ** m))) / float(2 ** m)
        if lo <= v <= hi:
            return v
    k = rng.randrange(4)
    x = rng.uniform(lo, hi)
    if k == 0:
        return float(round(x))
    if k == 1:
        return round(x, 3)
    return x


def r_lat(rng):
    return r_float(rng, -79.9, 83.9, (0.0, -37.5, 45.0, -0.000001, 83.5, -79.5))


def r_lon(rng):
    return r_float(rng, -179.9, 179.9, (0.0, 144.9, -122.3, 179.5, -179.5, 3.0))


def r_dms_parts(rng, maxdeg=179):
    d = rng.randrange(0, maxdeg + 1)
    m = rng.randrange(0, 60)
    s = round(rng.uniform(0, 59.9999), rng.choice([0, 1, 3, 5]))
    if s >= 60:
        s = 59.0
    return d, m, s


def r_hp(rng, maxdeg=179):
    d, m, s = r_dms_parts(rng, maxdeg)
    hp = float('%d.%02d%s' % (d, m, ('%08.5f' % s).replace('.', '')))
    return -hp if rng.random() < 0.4 else hp


def r_angle(rng, kind=None, maxdeg=179):
    kind = kind or rng.choice(ANGLE_KINDS + ['DMSs'])
    neg = rng.random() < 0.4
    if kind == 'DEC':
        x = r_float(rng, 0, maxdeg)
        return {'$angle': ['DEC', -x if neg else x]}
    if kind == 'HP':
        return {'$angle': ['HP', r_hp(rng, maxdeg)]}
    if kind == 'GON':
        x = r_float(rng, 0, maxdeg / 0.9)
        return {'$angle': ['GON', -x if neg else x]}
    d, m, s = r_dms_parts(rng, maxdeg)
    if kind in ('DMS', 'DDM') and rng.random() < 0.06:
        # parts that are not carried over (75.5 seconds, 60 minutes): the constructors accept them and every
        # method treats them as plain sums
        if rng.random() < 0.5:
            s = round(s + 60.0 * rng.choice([0, 1, 1]), 5) if rng.random() < 0.7 else 60.0
        else:
            m = m + 60 if rng.random() < 0.5 else 60
    if kind == 'DMS':
        if neg:
            return {'$angle': ['DMS', -d, m, s] if d else ['DMS', 0, -m, -s]}
        return {'$angle': ['DMS', d, m, s]}
    if kind == 'DMSs':
        return {'$angle': ['DMSs', '%s%d %d %s' % ('-' if neg else '', d, m, s)]}
    mm = round(m + s / 60, 6)
    if neg:
        return {'$angle': ['DDM', -d, mm] if d else ['DDM', 0, -mm]}
    return {'$angle': ['DDM', d, mm]}


def r_latlon_any(rng):
    """lat / lon either as floats or as (same-kind) angle objects"""
    if rng.random() < 0.6:
        return r_lat(rng), r_lon(rng)
    k = rng.choice(ANGLE_KINDS)
    return r_angle(rng, k, 79), r_angle(rng, k, 179)


def r_ell(rng):
    if rng.random() < 0.8:
        return {'$const': rng.choice(ELLIPSOIDS)}
    return {'$ell': [rng.choice([6378137, 6378137.0, 6377563.396, 6378206.4, 6378249.145]),
                     rng.choice([298.257222101, 299.3249646, 294.9786982, 293.465, 300.8017])]}


def r_proj(rng):
    k = rng.random()
    if k < 0.7:
        return {'$const': 'utm'}
    if k < 0.85:
        return {'$const': 'isg'}
    return {'$proj': [500000, 10000000, rng.choice([0.9996, 0.9999, 1.0]), 6, -177]}


def _array_kind(rng, lit):
    """unusual but valid kinds of caller arrays: Fortran order, a strided view, read-only"""
    k = rng.random()
    if k < 0.08:
        lit['order'] = 'F'
    elif k < 0.16:
        lit['strided'] = True
    elif k < 0.22:
        lit['readonly'] = True
    return lit


def r_vcv(rng, shape='3x3'):
    if shape == '3x1':
        return _array_kind(rng, {'$array': [[round(rng.uniform(1e-6, 1e-2), 9)] for _ in range(3)]})
    a = [[rng.uniform(-0.05, 0.05) for _ in range(3)] for _ in range(3)]
    m = [[sum(a[i][k] * a[j][k] for k in range(3)) + (1e-6 if i == j else 0.0) for j in range(3)] for i in range(3)]
    k = rng.random()
    if k < 0.06:      # only the upper triangle filled in (as some adjustment programs list a VCV block)
        m = [[m[i][j] if j >= i else 0.0 for j in range(3)] for i in range(3)]
    elif k < 0.10:    # only the lower triangle
        m = [[m[i][j] if j <= i else 0.0 for j in range(3)] for i in range(3)]
    elif k < 0.14:    # diagonal
        m = [[m[i][j] if j == i else 0.0 for j in range(3)] for i in range(3)]
    elif k < 0.19:
        m = [[0.0] * 3 for _ in range(3)]
    return _array_kind(rng, {'$array': m})


def r_date(rng):
    if rng.random() < 0.2:
        return {'$date': rng.choice(['2020-01-01', '1994-01-01', '2010-01-01', '2000-01-01', '2024-02-29'])}
    y = rng.randrange(1980, 2061)
    return {'$date': datetime.date(y, rng.randrange(1, 13), rng.randrange(1, 29)).isoformat()}


def r_xyz(rng):
    lat = math.radians(rng.uniform(-85, 85))
    lon = math.radians(rng.uniform(-180, 180))
    r = 6371000 + rng.choice([0, 100, -50, 500000, 2e7]) * rng.random()
    x, y, z = (round(r * math.cos(lat) * math.cos(lon), 4), round(r * math.cos(lat) * math.sin(lon), 4),
               round(r * math.sin(lat) * 0.9966, 4))
    k = rng.random()
    if k < 0.05:
        y = rng.choice([0.0, -0.0])          # on the Greenwich / 180 degree meridian plane: the sign of zero decides
    elif k < 0.08:
        z = rng.choice([0.0, -0.0])          # in the equatorial plane
    elif k < 0.12:
        x, y, z = float(round(x)), float(round(y)), float(round(z))      # whole metres: exact in single precision too
    return x, y, z


def r_grid(rng):
    zone = rng.randrange(1, 61)
    east = round(rng.uniform(150000, 850000), rng.choice([0, 3, 4]))
    north = round(rng.uniform(1000000, 9000000), rng.choice([0, 3, 4]))
    return zone, east, north


def r_trans(rng, catalogue):
    k = rng.random()
    if k < 0.75:
        return {'$const': rng.choice(catalogue)}
    d = {'from_datum': 'A', 'to_datum': 'B', 'ref_epoch': r_date(rng)['$date'],
         'tx': round(rng.uniform(-1, 1), 5), 'ty': round(rng.uniform(-1, 1), 5), 'tz': round(rng.uniform(-1, 1), 5),
         'sc': round(rng.uniform(-0.1, 0.1), 6), 'rx': round(rng.uniform(-0.05, 0.05), 6),
         'ry': round(rng.uniform(-0.05, 0.05), 6), 'rz': round(rng.uniform(-0.05, 0.05), 6),
         'd_tx': round(rng.uniform(-0.01, 0.01), 5), 'd_ty': 0.0, 'd_tz': round(rng.uniform(-0.01, 0.01), 5),
         'd_sc': round(rng.uniform(-0.001, 0.001), 6), 'd_rx': round(rng.uniform(-0.002, 0.002), 6),
         'd_ry': round(rng.uniform(-0.002, 0.002), 6), 'd_rz': 0.0}
    if rng.random() < 0.6:
        d['sd'] = dict(sd_tx=0.001, sd_ty=0.0012, sd_tz=0.0009, sd_sc=0.0003, sd_rx=0.00004, sd_ry=0.00003,
                       sd_rz=0.00005, sd_d_tx=0.0001, sd_d_ty=0.0001, sd_d_tz=0.0002, sd_d_sc=0.00001,
                       sd_d_rx=0.000002, sd_d_ry=0.000003, sd_d_rz=0.000001)
        if rng.random() < 0.3:
            # uncertainties of the seven parameters only, no rate terms (as the shipped static sets have them)
            for name in [n for n in d['sd'] if n.startswith('sd_d_')]:
                del d['sd'][name]
    return {'$trans': d}


# ---------------------------------------------------------------------------
# the catalogue: kind -> (target, generator(rng, ctx) -> args list)
# ctx.catalogue = names of shipped Transformation constants
# ---------------------------------------------------------------------------

OPS = {}
MUTABLE_ARG_KINDS = set()     # op kinds with at least one mutable caller-owned argument


def op(kind, target, mutable=False):
    def deco(gen):
        OPS[kind] = (target, gen)
        if mutable:
            MUTABLE_ARG_KINDS.add(kind)
        return gen
    return deco


def _simple(kind, target, gen, mutable=False):
    OPS[kind] = (target, gen)
    if mutable:
        MUTABLE_ARG_KINDS.add(kind)


# -- angles: float conversion functions ---------------------------------------
for _n in ['dec2hp', 'dec2hpa', 'dec2gon', 'dec2gona', 'dec2dms', 'dec2ddm', 'dd2sec']:
    _simple('angles.' + _n, 'f:angles.' + _n, lambda rng, ctx: [r_float(rng, -720, 720, (0.0, -0.0, 359.999999999, 1e-9))])
for _n in ['hp2dec', 'hp2deca', 'hp2rad', 'hp2gon', 'hp2gona', 'hp2dms', 'hp2ddm']:
    _simple('angles.' + _n, 'f:angles.' + _n,
            lambda rng, ctx: [r_hp(rng, 359) if rng.random() < 0.9 else rng.choice([12.6, 12.007, -0.0061])])
for _n in ['gon2dec', 'gon2deca', 'gon2hp', 'gon2hpa', 'gon2rad', 'gon2dms', 'gon2ddm']:
    _simple('angles.' + _n, 'f:angles.' + _n, lambda rng, ctx: [r_float(rng, -800, 800, (0.0, 100.0, 399.9999))])
_simple('angles.dec2hp_v', 'f:angles.dec2hp_v',
        lambda rng, ctx: [_array_kind(rng, {'$array': [r_float(rng, -360, 360) for _ in range(rng.randrange(1, 21))]})], mutable=True)
_simple('angles.hp2dec_v', 'f:angles.hp2dec_v',
        lambda rng, ctx: [_array_kind(rng, {'$array': [r_hp(rng, 359) for _ in range(rng.randrange(1, 21))]})], mutable=True)
_simple('angles.angular_typecheck', 'f:angles.angular_typecheck',
        lambda rng, ctx: [r_angle(rng) if rng.random() < 0.8 else r_float(rng, -360, 360)], mutable=True)

# -- angles: classes -----------------------------------------------------------
_METHODS = {'DEC': ['rad', 'dec', 'hp', 'hpa', 'gon', 'gona', 'dms', 'ddm'],
            'HP': ['rad', 'dec', 'deca', 'hp', 'gon', 'gona', 'dms', 'ddm'],
            'GON': ['rad', 'dec', 'deca', 'hp', 'hpa', 'gon', 'dms', 'ddm'],
            'DMS': ['rad', 'dec', 'deca', 'hp', 'hpa', 'gon', 'gona', 'ddm'],
            'DDM': ['rad', 'dec', 'deca', 'hp', 'hpa', 'gon', 'gona', 'dms']}


def _mk_method(kind, meth):
    _simple('%sAngle.%s' % (kind, meth), 'm:' + meth, lambda rng, ctx: [r_angle(rng, kind, 359)], mutable=True)


for _k, _ms in _METHODS.items():
    for _m in _ms:
        _mk_method(_k, _m)


def _mk_binop(kind, o):
    def gen(rng, ctx):
        a = r_angle(rng, kind, 170)
        if o in ('mul', 'truediv'):
            b = rng.choice([2, 3, 0.5, 1.5, -2, 7])
        elif o == 'mod':
            b = rng.choice([360, 180, 90, 45.5])
        else:
            b = r_angle(rng, rng.choice(ANGLE_KINDS) if rng.random() < 0.5 else kind, 170)
        return [a, b]
    _simple('%sAngle.__%s__' % (kind, o), 'op2:' + o, gen, mutable=True)


def _mk_unop(kind, o):
    _simple('%sAngle.__%s__' % (kind, o), 'op1:' + o, lambda rng, ctx: [r_angle(rng, kind, 359)], mutable=True)


for _k in ANGLE_KINDS:
    for _o in ['add', 'sub', 'mul', 'truediv', 'eq', 'ne', 'lt', 'gt']:
        _mk_binop(_k, _o)
    for _o in ['neg', 'abs', 'str', 'repr']:
        _mk_unop(_k, _o)
    _simple('%sAngle.__round__' % _k, 'round:',
            (lambda kk: lambda rng, ctx: [r_angle(rng, kk, 359), rng.choice([0, 1, 2, 4])])(_k), mutable=True)
for _k in ['DMS', 'DDM']:
    _mk_binop(_k, 'mod')
for _k in ['DEC', 'HP', 'GON']:
    _mk_unop(_k, 'int')
    _mk_unop(_k, 'float')
_simple('angles.sum', 'sum:',
        lambda rng, ctx: (lambda k: [[r_angle(rng, k, 80) for _ in range(rng.randrange(2, 5))],
                                     r_angle(rng, k, 10)])(rng.choice(ANGLE_KINDS)), mutable=True)

# -- constants -------------------------------------------------------------------
_simple('Transformation.__neg__', 'op1:neg', lambda rng, ctx: [r_trans(rng, ctx.catalogue)], mutable=True)


def _gen_tadd(rng, ctx):
    if rng.random() < 0.5:
        return [{'$const': rng.choice(DATED_SD)}, r_date(rng)]
    return [r_trans(rng, ctx.dated), r_date(rng)]


_simple('Transformation.__add__', 'op2:add', _gen_tadd, mutable=True)
_simple('Transformation.__repr__', 'op1:repr', lambda rng, ctx: [r_trans(rng, ctx.catalogue)], mutable=True)
_simple('constants.iers2trans', 'f:constants.iers2trans',
        lambda rng, ctx: ['ITRF2014', 'ITRF2008', r_date(rng)] + [round(rng.uniform(-50, 50), 2) for _ in range(14)])
_simple('constants.Ellipsoid', 'cls:constants.Ellipsoid',
        lambda rng, ctx: [rng.choice([6378137, 6378160.0, 6378388]), rng.choice([298.257222101, 298.25, 297])])
_simple('constants.Projection', 'cls:constants.Projection',
        lambda rng, ctx: [500000, 10000000, rng.choice([0.9996, 0.99994]), rng.choice([6, 2]), -177])

# -- convert ------------------------------------------------------------------------
_simple('convert.polar2rect', 'f:convert.polar2rect',
        lambda rng, ctx: [r_float(rng, 0, 5000), r_angle(rng, None, 359) if rng.random() < 0.5 else r_float(rng, 0, 360)],
        mutable=True)
_simple('convert.rect2polar', 'f:convert.rect2polar',
        lambda rng, ctx: [r_float(rng, -5000, 5000, (0.0,)), r_float(rng, -5000, 5000, (0.0,))])
for _n in ['rect_radius', 'alpha_coeff', 'beta_coeff']:
    _simple('convert.' + _n, 'f:convert.' + _n, lambda rng, ctx: [r_ell(rng)], mutable=True)


def _gen_geo2grid(rng, ctx):
    lat, lon = r_latlon_any(rng)
    prj = r_proj(rng)
    if rng.random() < 0.2:
        prj = {'$const': 'isg'}
    if prj == {'$const': 'isg'}:
        if not isinstance(lon, dict):
            # mostly inside the ISG zones of New South Wales; sometimes anywhere (the library must refuse those
            # the same way every time)
            lon = r_float(rng, 141.0, 153.5) if rng.random() < 0.6 else r_lon(rng)
        zone = rng.choice([0, 0, 0, 0, 0, 551, 552, 561, 541, 572, 501, 571, 553])
        ell = {'$const': 'ans'} if rng.random() < 0.8 else r_ell(rng)
        return [lat, lon, zone, ell, prj]
    else:
        zone = 0 if rng.random() < 0.7 else rng.randrange(1, 61)
        ell = r_ell(rng)
    k = rng.randrange(3)
    if k == 0:
        return [lat, lon]
    if k == 1:
        return [lat, lon, zone, ell]
    return [lat, lon, zone, ell, prj]


_simple('convert.geo2grid', 'f:convert.geo2grid', _gen_geo2grid, mutable=True)


def _gen_grid2geo(rng, ctx):
    zone, east, north = r_grid(rng)
    k = rng.randrange(4)
    if k == 0:
        return [zone, east, north]
    hemi = rng.choice(['south', 'north', 'South', 'North'])
    if k == 1:
        return [zone, east, north, hemi]
    if k == 2:
        return [zone, east, north, hemi, r_ell(rng)]
    if rng.random() < 0.5:
        return [rng.choice([551, 552, 561, 562, 541, 572, 501, 571, 553, 563]), round(rng.uniform(200000, 400000), 3),
                round(rng.uniform(1000000, 1900000), 3), 'south', {'$const': 'ans'}, {'$const': 'isg'}]
    return [zone, east, north, hemi, r_ell(rng), r_proj(rng)]


_simple('convert.grid2geo', 'f:convert.grid2geo', _gen_grid2geo, mutable=True)
_simple('convert.xyz2llh', 'f:convert.xyz2llh',
        lambda rng, ctx: list(r_xyz(rng)) + ([r_ell(rng)] if rng.random() < 0.5 else []), mutable=True)


def _gen_llh2xyz(rng, ctx):
    lat, lon = r_latlon_any(rng)
    a = [lat, lon]
    if rng.random() < 0.7:
        a.append(r_float(rng, -1e4, 4e7, (0, 0.0)))
        if rng.random() < 0.5:
            a.append(r_ell(rng))
    return a


_simple('convert.llh2xyz', 'f:convert.llh2xyz', _gen_llh2xyz, mutable=True)
_simple('convert.date_to_yyyydoy', 'f:convert.date_to_yyyydoy', lambda rng, ctx: [r_date(rng)])
_simple('convert.yyyydoy_to_date', 'f:convert.yyyydoy_to_date',
        lambda rng, ctx: [rng.choice(['%04d.%03d', '%04d%03d']) % (rng.randrange(1980, 2061), rng.randrange(1, 366))
                          if rng.random() < 0.9 else rng.choice(['2020.1', '20201', 'abcd.efg'])])

# -- geodesy --------------------------------------------------------------------------
_simple('geodesy.enu2xyz', 'f:geodesy.enu2xyz',
        lambda rng, ctx: list(r_latlon_any(rng)) + [r_float(rng, -500, 500) for _ in range(3)], mutable=True)
_simple('geodesy.xyz2enu', 'f:geodesy.xyz2enu',
        lambda rng, ctx: list(r_latlon_any(rng)) + [r_float(rng, -500, 500) for _ in range(3)], mutable=True)


def _gen_vincdir(rng, ctx):
    lat, lon = r_latlon_any(rng)
    az = r_angle(rng, None, 359) if rng.random() < 0.3 else r_float(rng, 0, 360, (0.0, 90.0, 180.0))
    dist = r_float(rng, 1, 2e6, (0.001, 54972.271, 1e7))
    a = [lat, lon, az, dist]
    if rng.random() < 0.4:
        a.append(r_ell(rng))
    return a


_simple('geodesy.vincdir', 'f:geodesy.vincdir', _gen_vincdir, mutable=True)


def _gen_vincinv(rng, ctx):
    lat1, lon1 = r_latlon_any(rng)
    if rng.random() < 0.1:
        lat2, lon2 = lat1, lon1
    else:
        lat2, lon2 = r_latlon_any(rng)
    a = [lat1, lon1, lat2, lon2]
    if rng.random() < 0.4:
        a.append(r_ell(rng))
    return a


_simple('geodesy.vincinv', 'f:geodesy.vincinv', _gen_vincinv, mutable=True)


def _gen_vincdir_utm(rng, ctx):
    zone, east, north = r_grid(rng)
    a = [zone, east, north, r_float(rng, 0, 360) if rng.random() < 0.7 else r_angle(rng, None, 359),
         r_float(rng, 10, 100000)]
    if rng.random() < 0.4:
        a.append(rng.choice(['south', 'north']))
        if rng.random() < 0.5:
            a.append(r_ell(rng))
    return a


_simple('geodesy.vincdir_utm', 'f:geodesy.vincdir_utm', _gen_vincdir_utm, mutable=True)


def _gen_two_grid(rng, ctx):
    zone, east, north = r_grid(rng)
    z2 = zone if rng.random() < 0.8 else max(1, min(60, zone + rng.choice([-1, 1])))
    e2 = round(east + rng.uniform(-60000, 60000), 3)
    n2 = round(min(9.9e6, max(1e5, north + rng.uniform(-60000, 60000))), 3)
    a = [zone, east, north, z2, e2, n2]
    if rng.random() < 0.4:
        a.append(rng.choice(['south', 'north']))
        if rng.random() < 0.5:
            a.append(r_ell(rng))
    return a


_simple('geodesy.vincinv_utm', 'f:geodesy.vincinv_utm', _gen_two_grid, mutable=True)
_simple('geodesy.line_sf', 'f:geodesy.line_sf', _gen_two_grid, mutable=True)
_simple('geodesy.rho', 'f:geodesy.rho', lambda rng, ctx: [r_lat(rng)] + ([r_ell(rng)] if rng.random() < 0.5 else []), mutable=True)
_simple('geodesy.nu', 'f:geodesy.nu', lambda rng, ctx: [r_lat(rng)] + ([r_ell(rng)] if rng.random() < 0.5 else []), mutable=True)

# -- statistics ---------------------------------------------------------------------------
_simple('statistics.rotation_matrix', 'f:statistics.rotation_matrix', lambda rng, ctx: [r_lat(rng), r_lon(rng)])
_simple('statistics.vcv_cart2local', 'f:statistics.vcv_cart2local',
        lambda rng, ctx: [r_vcv(rng, rng.choice(['3x3', '3x3', '3x1'])), r_lat(rng), r_lon(rng)], mutable=True)
_simple('statistics.vcv_local2cart', 'f:statistics.vcv_local2cart',
        lambda rng, ctx: [r_vcv(rng, rng.choice(['3x3', '3x3', '3x1'])), r_lat(rng), r_lon(rng)], mutable=True)
_simple('statistics.error_ellipse', 'f:statistics.error_ellipse', lambda rng, ctx: [r_vcv(rng)], mutable=True)
_simple('statistics.relative_error', 'f:statistics.relative_error',
        lambda rng, ctx: [r_lat(rng), r_lon(rng), r_vcv(rng), r_vcv(rng),
                          {'$array': [[rng.uniform(-1e-5, 1e-5) for _ in range(3)] for _ in range(3)]}], mutable=True)
_simple('statistics.circ_hz_pu', 'f:statistics.circ_hz_pu',
        lambda rng, ctx: (lambda a: [a, round(a * rng.random(), 6)])(round(rng.uniform(0.001, 2), 6)))
_simple('statistics.k_val95', 'f:statistics.k_val95',
        lambda rng, ctx: [rng.randrange(-5, 201) if rng.random() < 0.95 else 2.5])

# -- survey -------------------------------------------------------------------------------------
_simple('survey.first_vel_params', 'f:survey.first_vel_params',
        lambda rng, ctx: [rng.choice([0.85, 0.658, 0.91]), rng.choice([None, 14985400, 49951600])] +
        ([rng.choice([1.000281783, 1.0002863])] if rng.random() < 0.5 else [None, rng.choice([10, 1.5])]))
_simple('survey.part_h2o_vap_press', 'f:survey.part_h2o_vap_press',
        lambda rng, ctx: [r_float(rng, -10, 45), r_float(rng, 800, 1050)] +
        ([r_float(rng, 5, 100)] if rng.random() < 0.6 else [None, r_float(rng, -5, 30)]))


def _gen_fvc(rng, ctx):
    params = {'$tuple': [rng.choice([281.781, 286.338]), rng.choice([79.393, 79.661])]}
    a = [r_float(rng, 10, 5000), params, r_float(rng, -5, 45, (15,)), r_float(rng, 850, 1050)]
    if rng.random() < 0.6:
        a += [r_float(rng, 5, 100)]
    else:
        a += [r_float(rng, 5, 100), None, rng.choice([345, 420, 500]), rng.choice([0.85, 0.658])]
    return a


_simple('survey.first_vel_corrn', 'f:survey.first_vel_corrn', _gen_fvc)
_simple('survey.mets_partial_differentials', 'f:survey.mets_partial_differentials',
        lambda rng, ctx: [] if rng.random() < 0.2 else [rng.choice([1.00028, 1.0002863]), r_float(rng, -5, 45),
                                                        r_float(rng, 850, 1050), r_float(rng, 5, 100)])


def _gen_pih(rng, ctx):
    n = rng.randrange(3, 9)
    base = rng.uniform(91, 100)
    vals = [round(base + rng.uniform(0.5, 2.5) * i + rng.uniform(-0.1, 0.1), 6) for i in range(n)]
    rng.shuffle(vals)
    if rng.random() < 0.2:
        vals.sort(reverse=rng.random() < 0.5)        # observations booked in order
    k = rng.random()
    if k < 0.25:
        vals = _array_kind(rng, {'$array': vals})    # a column of a caller's numpy table
    elif k < 0.4:
        vals = {'$tuple': vals}
    return [vals, rng.choice([0.1, 0.2, 0.5]), round(rng.uniform(0.01, 0.5), 3)]


_simple('survey.precise_inst_ht', 'f:survey.precise_inst_ht', _gen_pih, mutable=True)
_simple('survey.joins', 'f:survey.joins', lambda rng, ctx: [r_float(rng, 1e5, 9e5) for _ in range(4)])
_simple('survey.radiations', 'f:survey.radiations',
        lambda rng, ctx: [r_float(rng, 1e5, 9e5), r_float(rng, 1e6, 9e6),
                          r_angle(rng, rng.choice(['DMS', 'DDM', 'DEC']), 359) if rng.random() < 0.3 else r_float(rng, 0, 360),
                          r_float(rng, 1, 5000)] + ([r_float(rng, 0, 5), rng.choice([1, 0.9996, 1.0001])] if rng.random() < 0.4 else []),
        mutable=True)
_simple('survey.va_conv', 'f:survey.va_conv',
        lambda rng, ctx: [r_float(rng, 1, 359, (0, 180, 90, 270)), r_float(rng, 1, 2000)] +
        ([r_float(rng, 0, 2), r_float(rng, 0, 2)] if rng.random() < 0.5 else []))
_simple('survey.refractivity_constants', 'f:survey.refractivity_constants', lambda rng, ctx: [])
_simple('survey.phase_refractivity', 'f:survey.phase_refractivity',
        lambda rng, ctx: [rng.choice([0.85, 0.658, 0.633]), r_float(rng, -5, 45), r_float(rng, 850, 1050), r_float(rng, 1, 30)] +
        ([rng.choice([345, 420])] if rng.random() < 0.5 else []))
_simple('survey.group_refractivity', 'f:survey.group_refractivity',
        lambda rng, ctx: [rng.choice([0.85, 0.658, 0.633]), r_float(rng, -5, 45), r_float(rng, 850, 1050), r_float(rng, 1, 30)] +
        ([rng.choice([345, 420])] if rng.random() < 0.5 else []))
_simple('survey.humidity2part_water_vapour_press', 'f:survey.humidity2part_water_vapour_press',
        lambda rng, ctx: [r_float(rng, 1, 100), r_float(rng, -5, 45)])

# -- transform ------------------------------------------------------------------------------------


def _gen_conform7(rng, ctx):
    x, y, z = r_xyz(rng)
    a = [x, y, z, r_trans(rng, ctx.catalogue if rng.random() < 0.5 else ctx.with_sd)]
    if rng.random() < 0.5:
        a.append(r_vcv(rng))
    return a


_simple('transform.conform7', 'f:transform.conform7', _gen_conform7, mutable=True)


def _gen_conform14(rng, ctx):
    x, y, z = r_xyz(rng)
    k = rng.random()
    if k < 0.45:
        t = {'$const': rng.choice(DATED_SD)}
    elif k < 0.55:
        # a static seven-parameter set (or one whose uncertainties lack rate terms) handed to the time-dependent
        # function: refused or not, the call must leave the set as it was
        t = {'$const': rng.choice(ctx.with_sd if rng.random() < 0.6 else ctx.catalogue)}
    else:
        t = r_trans(rng, ctx.dated)
    a = [x, y, z, r_date(rng), t]
    if rng.random() < 0.5:
        a.append(r_vcv(rng))
    return a


_simple('transform.conform14', 'f:transform.conform14', _gen_conform14, mutable=True)


def _gen_mga(rng, ctx):
    zone = rng.randrange(49, 57)
    a = [zone, round(rng.uniform(200000, 800000), 3), round(rng.uniform(5.5e6, 8.8e6), 3)]
    k = rng.randrange(3)
    if k >= 1:
        a.append(r_float(rng, -50, 2000))
    if k == 2:
        a.append(r_vcv(rng))
    return a


_simple('transform.transform_mga94_to_mga2020', 'f:transform.transform_mga94_to_mga2020', _gen_mga, mutable=True)
_simple('transform.transform_mga2020_to_mga94', 'f:transform.transform_mga2020_to_mga94', _gen_mga, mutable=True)


def _gen_atrf(rng, ctx):
    x, y, z = r_xyz(rng)
    a = [x, y, z, r_date(rng)]
    if rng.random() < 0.5:
        a.append(r_vcv(rng))
    return a


_simple('transform.transform_atrf2014_to_gda2020', 'f:transform.transform_atrf2014_to_gda2020', _gen_atrf, mutable=True)
_simple('transform.transform_gda2020_to_atrf2014', 'f:transform.transform_gda2020_to_atrf2014', _gen_atrf, mutable=True)
_simple('transform.ntv2_2d', 'f:transform.ntv2_2d',
        lambda rng, ctx: [{'$grid': rng.choice(['std', 'std', 'alt'])}, round(rng.uniform(-37.95, -36.05), 6), round(rng.uniform(144.05, 145.95), 6),
                          rng.random() < 0.5, rng.choice(['bicubic', 'bilinear'])], mutable=True)

# -- coord -----------------------------------------------------------------------------------------


def r_coord(rng, kind=None):
    kind = kind or rng.choice(['Cart', 'Geo', 'TM'])
    if kind == 'Cart':
        x, y, z = r_xyz(rng)
        return {'$coord': ['Cart', x, y, z] + ([round(rng.uniform(-50, 50), 3)] if rng.random() < 0.5 else [])}
    if kind == 'Geo':
        if rng.random() < 0.4:
            lat, lon = r_lat(rng) + 0.0, r_lon(rng) + 0.0
        else:
            k = rng.choice(ANGLE_KINDS)
            lat, lon = r_angle(rng, k, 79), r_angle(rng, k, 179)
        hs = [None, None]
        if rng.random() < 0.7:
            hs[0] = round(rng.uniform(-50, 3000), 3)
        if rng.random() < 0.5:
            hs[1] = round(rng.uniform(-50, 3000), 3)
        return {'$coord': ['Geo', lat, lon] + hs}
    zone, east, north = r_grid(rng)
    c = ['TM', zone, east, north,
         round(rng.uniform(-50, 3000), 3) if rng.random() < 0.6 else None,
         round(rng.uniform(-50, 3000), 3) if rng.random() < 0.4 else None,
         rng.random() < 0.3]
    if rng.random() < 0.35:
        c.append(r_proj(rng) if rng.random() < 0.7 else {'$proj': [500000, 10000000, 0.9996, 6, -177]})   # equal values, other object
    return {'$coord': c}


def r_notation(rng):
    return {'$cls': rng.choice(['float', 'DECAngle', 'HPAngle', 'GONAngle', 'DMSAngle', 'DDMAngle'])}


_simple('CoordCart.geo', 'm:geo', lambda rng, ctx: [r_coord(rng, 'Cart')] + ([r_ell(rng), r_notation(rng)] if rng.random() < 0.7 else []), mutable=True)
_simple('CoordCart.tm', 'm:tm', lambda rng, ctx: [r_coord(rng, 'Cart')] + ([r_ell(rng)] if rng.random() < 0.4 else []), mutable=True)
_simple('CoordGeo.notation', 'm:notation', lambda rng, ctx: [r_coord(rng, 'Geo'), r_notation(rng)], mutable=True)
_simple('CoordGeo.cart', 'm:cart', lambda rng, ctx: [r_coord(rng, 'Geo')] + ([r_ell(rng)] if rng.random() < 0.4 else []), mutable=True)
_simple('CoordGeo.tm', 'm:tm', lambda rng, ctx: [r_coord(rng, 'Geo')] + ([r_ell(rng)] if rng.random() < 0.4 else []), mutable=True)
_simple('CoordTM.geo', 'm:geo', lambda rng, ctx: [r_coord(rng, 'TM')] + ([r_ell(rng), r_notation(rng)] if rng.random() < 0.7 else []), mutable=True)
_simple('CoordTM.cart', 'm:cart', lambda rng, ctx: [r_coord(rng, 'TM')] + ([r_ell(rng)] if rng.random() < 0.4 else []), mutable=True)
for _c in ['Cart', 'Geo', 'TM']:
    _simple('Coord%s.__round__' % _c, 'round:', (lambda cc: lambda rng, ctx: [r_coord(rng, cc), rng.choice([0, 2, 4])])(_c), mutable=True)
    _simple('Coord%s.__repr__' % _c, 'op1:repr', (lambda cc: lambda rng, ctx: [r_coord(rng, cc)])(_c), mutable=True)
    _simple('Coord%s.__eq__' % _c, 'op2:eq', (lambda cc: lambda rng, ctx: (lambda a: [a, a if rng.random() < 0.5 else r_coord(rng, cc)])(r_coord(rng, cc)))(_c), mutable=True)


# -- additional forms: constructors, reflected operators, psfandgridconv -----------------------------
_simple('convert.psfandgridconv', 'f:convert.psfandgridconv',
        lambda rng, ctx: [rng.uniform(-1.2, 1.2), rng.uniform(-0.05, 0.05), r_lat(rng), r_lon(rng), float(rng.randrange(-177, 178, 6)),
                          rng.uniform(-1.2, 1.2)] + ([r_ell(rng), r_proj(rng)] if rng.random() < 0.5 else []), mutable=True)
_simple('angles.HPAngle()', 'cls:angles.HPAngle', lambda rng, ctx: [r_hp(rng, 359) if rng.random() < 0.85 else rng.choice([10.6, 10.007, -3.3060])])
_simple('angles.DECAngle()', 'cls:angles.DECAngle', lambda rng, ctx: [r_float(rng, -720, 720)])
_simple('angles.GONAngle()', 'cls:angles.GONAngle', lambda rng, ctx: [r_float(rng, -800, 800)])
_simple('angles.DMSAngle()', 'cls:angles.DMSAngle',
        lambda rng, ctx: (lambda d, m, s: rng.choice([[d, m, s], [-d, m, s], [0, -m, s], [0, 0, -s], ['%d %d %s' % (d, m, s)], ['-%d %d %s' % (d, m, s)],
                                                      [d, m, s, False], [d, m, s, True]]))(*r_dms_parts(rng, 359)))
_simple('angles.DDMAngle()', 'cls:angles.DDMAngle',
        lambda rng, ctx: (lambda d, m, s: rng.choice([[d, m + s / 60], [-d, m + s / 60], [0, -(m + s / 60)], ['%d %s' % (d, round(m + s / 60, 4))],
                                                      [d, m + s / 60, False]]))(*r_dms_parts(rng, 359)))
for _k in ANGLE_KINDS:
    _simple('%sAngle.__rmul__' % _k, 'op2:mul', (lambda kk: lambda rng, ctx: [rng.choice([2, 3, 0.5, -1.5]), r_angle(rng, kk, 170)])(_k), mutable=True)
    _simple('%sAngle.__radd__(sum)' % _k, 'sum:', (lambda kk: lambda rng, ctx: [[r_angle(rng, kk, 80) for _ in range(rng.randrange(1, 4))], 0])(_k), mutable=True)
_simple('coord.CoordCart()', 'cls:coord.CoordCart', lambda rng, ctx: list(r_xyz(rng)) + ([round(rng.uniform(-50, 50), 3)] if rng.random() < 0.5 else []))
_simple('coord.CoordGeo()', 'cls:coord.CoordGeo', lambda rng, ctx: r_coord(rng, 'Geo')['$coord'][1:], mutable=True)
_simple('coord.CoordTM()', 'cls:coord.CoordTM', lambda rng, ctx: r_coord(rng, 'TM')['$coord'][1:] + ([r_proj(rng)] if rng.random() < 0.3 else []), mutable=True)
_simple('constants.TransformationSD()', 'cls:constants.TransformationSD', lambda rng, ctx: [round(rng.uniform(0, 0.01), 6) for _ in range(rng.choice([7, 14]))])


# weights: transformation-related and mutable-argument ops are the ones the
# property's mechanisms live in; keep them well represented
def kind_weights():
    w = {}
    for k in OPS:
        if k.startswith('transform.') or k.startswith('Transformation.'):
            w[k] = 8
        elif k.startswith(('statistics.', 'survey.precise', 'geodesy.', 'convert.', 'Coord')):
            w[k] = 3
        elif 'Angle' in k:
            w[k] = 0.35
        else:
            w[k] = 1
    return w


# ---------------------------------------------------------------------------
# near-repeats: the same call with ONE argument changed to a close relative.
# A memo keyed on a projection of the arguments (rounded value, datum labels,
# flattening only, identity of a notation class ...) returns the earlier call's
# answer for the relative; the pristine reference does not.
# ---------------------------------------------------------------------------

ELL_VALUES = {'grs80': (6378137, 298.257222101), 'wgs84': (6378137, 298.257223563),
              'ans': (6378160, 298.25), 'intl24': (6378388, 297)}


def _perturb(rng, v):
    if isinstance(v, bool) or not isinstance(v, (int, float)):
        return None
    if isinstance(v, float) and not math.isfinite(v):
        return None
    if isinstance(v, int):
        return None
    d = rng.choice([1e-9, -1e-9, 1e-7, 1e-5, -1e-3])
    return v + d * max(1.0, abs(v)) if rng.random() < 0.5 else v + d


def near_variant(rng, lit, ctx):
    """-> a literal close to `lit` (or None when no relative is defined)"""
    if isinstance(lit, float):
        k = rng.random()
        if lit == 0.0 and k < 0.6:
            return -0.0 if math.copysign(1.0, lit) > 0 else 0.0          # equal, not identical
        if k < 0.12 and math.isfinite(lit):
            # the same number in another numeric type (a caller's numpy table, single precision, an int):
            # equal as a dictionary key, not the same computation
            import struct
            kinds = ['f64']
            if struct.unpack('f', struct.pack('f', lit))[0] == lit:
                kinds += ['f32', 'f32']
            if lit == int(lit) and abs(lit) < 2 ** 53:
                kinds.append('int')
            return {'$num': [rng.choice(kinds), lit]}
        return _perturb(rng, lit)
    if isinstance(lit, dict) and '$num' in lit:
        return float(lit['$num'][1])
    if isinstance(lit, list):
        idx = [i for i, x in enumerate(lit) if isinstance(x, float)]
        if not idx:
            return None
        out = list(lit)
        i = rng.choice(idx)
        out[i] = _perturb(rng, out[i])
        return out
    if not isinstance(lit, dict):
        return None
    if '$const' in lit:
        n = lit['$const']
        if n in ELL_VALUES:
            a, f = ELL_VALUES[n]
            k = rng.randrange(4)
            if k == 0:
                return {'$const': rng.choice([e for e in ELLIPSOIDS if e != n])}
            if k == 1:
                return {'$ell': [a, rng.choice([297.0, 298.25, 299.1528128, f + 1e-6])]}       # same axis, other flattening
            if k == 2:
                return {'$ell': [rng.choice([a / 0.3048, a + 0.5, 6377276.345, 6378249.145]), f]}  # same flattening, other axis
            return {'$ell': [a, f]}                                                              # equal values, other object
        if n in ('utm', 'isg'):
            return {'$proj': [500000, 10000000, rng.choice([0.9996, 0.9999, 1.0]), 6, -177]}
        grp = ctx.label_groups.get(n)
        if grp and rng.random() < 0.8:
            return {'$const': rng.choice(grp)}
        return {'$const': rng.choice(ctx.catalogue)}
    if '$ell' in lit:
        a, f = lit['$ell']
        return {'$ell': [a + 0.5, f]} if rng.random() < 0.5 else {'$ell': [a, f + 1e-3]}
    if '$trans' in lit:
        d = dict(lit['$trans'])
        k = rng.choice(['tx', 'sc', 'rz', 'd_tx'])
        d[k] = round(d.get(k, 0.0) + rng.choice([0.01, -0.002, 0.3]), 6)
        return {'$trans': d}
    if '$array' in lit:
        arr = [row[:] if isinstance(row, list) else row for row in lit['$array']]
        if arr and isinstance(arr[0], list):
            i, j = rng.randrange(len(arr)), rng.randrange(len(arr[0]))
            arr[i][j] = arr[i][j] * (1 + 1e-6) + 1e-12
            if len(arr) == len(arr[0]):
                arr[j][i] = arr[i][j]
        elif arr:
            i = rng.randrange(len(arr))
            arr[i] = arr[i] + 1e-7
        out = dict(lit)
        out['$array'] = arr
        return out
    if '$date' in lit:
        import datetime as _d
        return {'$date': (_d.date.fromisoformat(lit['$date']) + _d.timedelta(days=rng.choice([1, -1, 365]))).isoformat()}
    if '$angle' in lit:
        a = list(lit['$angle'])
        if a[0] in ('DEC', 'GON') and isinstance(a[1], float):
            a[1] = a[1] + rng.choice([1e-9, 1e-6])
            return {'$angle': a}
        if a[0] in ('DMS', 'DDM') and isinstance(a[-1], float):
            a[-1] = round(abs(a[-1]) * (1 - 1e-6), 9) if a[-1] >= 0 else a[-1]
            return {'$angle': a}
        return None
    if '$coord' in lit:
        c = list(lit['$coord'])
        idx = [i for i in range(1, len(c)) if isinstance(c[i], float)]
        if not idx:
            return None
        i = rng.choice(idx)
        c[i] = _perturb(rng, c[i])
        return {'$coord': c}
    if '$cls' in lit:
        return {'$cls': rng.choice([x for x in ['float', 'DECAngle', 'HPAngle', 'GONAngle', 'DMSAngle', 'DDMAngle'] if x != lit['$cls']])}
    return None
