"""Harness-side NTv2 (.gsb) writer: the party that produced the file.

Layout (little-endian): 176-byte overview header = 11 records of 8-byte name +
8-byte value; per sub-grid a 176-byte header followed by GS_COUNT 16-byte node
records (4 x float32), rows south->north, columns from E_LONG towards W_LONG
(longitudes positive west, arc-seconds); trailer 'END' record.
"""
import struct


PAD = [b' ']


def _name(s):
    return s.encode('ascii').ljust(8, PAD[0])[:8]


def _rec_int(name, v):
    return _name(name) + struct.pack('<i', v) + b'\0\0\0\0'


def _rec_str(name, s):
    return _name(name) + _name(s)


def _rec_dbl(name, v):
    return _name(name) + struct.pack('<d', v)


def overview_header(nsub, gs_type='SECONDS', version='NTv2.0', system_f='GDA94', system_t='GDA2020',
                    major_f=6378137.0, minor_f=6356752.314, major_t=6378137.0, minor_t=6356752.314):
    b = b''.join([
        _rec_int('NUM_OREC', 11), _rec_int('NUM_SREC', 11), _rec_int('NUM_FILE', nsub),
        _rec_str('GS_TYPE', gs_type), _rec_str('VERSION', version),
        _rec_str('SYSTEM_F', system_f), _rec_str('SYSTEM_T', system_t),
        _rec_dbl('MAJOR_F', major_f), _rec_dbl('MINOR_F', minor_f),
        _rec_dbl('MAJOR_T', major_t), _rec_dbl('MINOR_T', minor_t)])
    assert len(b) == 176
    return b


def subgrid_header(sg):
    nrow, ncol = sg['nrow'], sg['ncol']
    n_lat = sg['n_lat'] if 'n_lat' in sg else sg['s_lat'] + (nrow - 1) * sg['lat_inc']
    w_long = sg['w_long'] if 'w_long' in sg else sg['e_long'] + (ncol - 1) * sg['long_inc']
    b = b''.join([
        _rec_str('SUB_NAME', sg['name']), _rec_str('PARENT', sg.get('parent', 'NONE')),
        _rec_str('CREATED', sg.get('created', '01012020')), _rec_str('UPDATED', sg.get('updated', '02032021')),
        _rec_dbl('S_LAT', sg['s_lat']), _rec_dbl('N_LAT', n_lat),
        _rec_dbl('E_LONG', sg['e_long']), _rec_dbl('W_LONG', w_long),
        _rec_dbl('LAT_INC', sg['lat_inc']), _rec_dbl('LONG_INC', sg['long_inc']),
        _rec_int('GS_COUNT', nrow * ncol)])
    assert len(b) == 176
    return b


def build(spec, node_value):
    """spec: {'header': {...optional...}, 'subgrids': [ {name,parent,s_lat,e_long,lat_inc,long_inc,nrow,ncol,...} ]}
    node_value(k, r, c) -> 4 floats (exactly representable in float32).
    Returns (bytes, layout) with layout[k] = byte offset of node (0,0) of sub-grid k."""
    PAD[0] = b'\0' if spec.get('nul_padding') else b' '     # 8-character fields padded with blanks or NULs
    out = [overview_header(len(spec['subgrids']), **spec.get('header', {}))]
    pos = 176
    layout = []
    for k, sg in enumerate(spec['subgrids']):
        out.append(subgrid_header(sg))
        pos += 176
        layout.append(pos)
        buf = bytearray()
        for r in range(sg['nrow']):
            for c in range(sg['ncol']):
                buf += struct.pack('<4f', *node_value(k, r, c))
        out.append(bytes(buf))
        pos += len(buf)
    out.append(_name('END') + struct.pack('<d', 3.33e32))
    return b''.join(out), layout


def node_offset(layout, spec, k, r, c):
    return layout[k] + 16 * (r * spec['subgrids'][k]['ncol'] + c)
