"""C17 - NTv2 grid files are read faithfully and interpolated only from the
right nodes.

Simulated component: the disk under geodepy.ntv2reader (module-level `open`
rebound to SimFS), with a byte-exact I/O history and a fault plan (corruption of
stored node records outside / between queries, EIO on the n-th read, torn file).
The harness is the party that wrote the file (ntv2_writer) from an analytic
field, so the true answer at every position is known.
"""
import math
import os
import struct

import numpy as np

from detsim import kernel
from detsim.kernel import EventLog, short_hash
from detsim.simfs import SimFS
from checks.common import CheckBase
from checks import ntv2_writer

INCS = [3600.0, 1800.0, 900.0, 600.0, 450.0, 300.0, 225.0, 180.0, 150.0, 120.0, 112.5, 90.0, 75.0, 60.0, 45.0, 37.5, 30.0]
FIELD_CLASSES = ['zero', 'const', 'linear', 'linear', 'bilinear', 'biquadratic', 'biquadratic', 'generic']
TERMS = {
    'zero': [],
    'const': [(0, 0)],
    'linear': [(0, 0), (1, 0), (0, 1)],
    'bilinear': [(0, 0), (1, 0), (0, 1), (1, 1)],
    'biquadratic': [(i, j) for i in range(3) for j in range(3)],
    'generic': [(0, 0), (1, 0), (0, 1), (1, 1), (2, 0), (0, 2), (3, 0), (0, 3), (2, 1), (1, 2), (3, 1)],
}


# ---------------------------------------------------------------------------
# analytic fields: value(r, c) = sum m * r^i * c^j / 2^k  (exact in float32 at nodes)
# ---------------------------------------------------------------------------

def gen_poly(rng, cls, nrow, ncol):
    k = rng.randrange(6, 13)
    terms = []
    tl = TERMS[cls]
    R, C = max(1, nrow - 1), max(1, ncol - 1)
    for (i, j) in tl:
        b = int((1 << 24) / (len(tl) * (R ** i) * (C ** j))) - 1
        b = min(b, 1 << 14)
        if b < 1:
            continue
        m = rng.randrange(-b, b + 1)
        if m == 0 and (i, j) != (0, 0):
            m = rng.choice([-1, 1])
        terms.append([i, j, m])
    return {'cls': cls, 'k': k, 'terms': terms}


def poly_eval(p, r, c):
    if p.get('patch') and r == int(r) and c == int(c):
        for pr, pc, pv in p['patch']:
            if pr == r and pc == c:
                return pv
    s = 0.0
    for i, j, m in p['terms']:
        s += m * (r ** i) * (c ** j)
    return s / float(1 << p['k'])


def poly_grad_bound(p, row, col):
    """max over the cell's corners of |df/dr| + |df/dc| (per cell unit)"""
    best = 0.0
    for r in (row, row + 1):
        for c in (col, col + 1):
            fr = fc = 0.0
            for i, j, m in p['terms']:
                if i:
                    fr += m * i * (r ** (i - 1)) * (c ** j)
                if j:
                    fc += m * j * (r ** i) * (c ** (j - 1))
            best = max(best, (abs(fr) + abs(fc)) / float(1 << p['k']))
    return best


def effective_class(p):
    """class by the terms actually present (coefficients may have been dropped)"""
    if p.get('patch'):
        return 'generic'      # node values overridden: no analytic expectation between nodes
    mi = max([t[0] for t in p['terms'] if t[2]] + [0])
    mj = max([t[1] for t in p['terms'] if t[2]] + [0])
    if mi <= 1 and mj <= 1:
        if any(t[0] == 1 and t[1] == 1 and t[2] for t in p['terms']):
            return 'bilinear'
        return 'linear'
    if mi <= 2 and mj <= 2:
        return 'biquadratic'
    return 'generic'


# ---------------------------------------------------------------------------
# spec generation
# ---------------------------------------------------------------------------

def _bbox(sg):
    """(s_lat, n_lat, e_long, w_long) exactly as a reader sees them: extents are 3-decimal
    numbers; they are derived in integer milli-arc-seconds so that no float drift enters"""
    if 's_lat_m' in sg:
        return (sg['s_lat_m'] / 1000.0, (sg['s_lat_m'] + (sg['nrow'] - 1) * sg['lat_inc_m']) / 1000.0,
                sg['e_long_m'] / 1000.0, (sg['e_long_m'] + (sg['ncol'] - 1) * sg['long_inc_m']) / 1000.0)
    return (sg['s_lat'], sg['s_lat'] + (sg['nrow'] - 1) * sg['lat_inc'],
            sg['e_long'], sg['e_long'] + (sg['ncol'] - 1) * sg['long_inc'])


def _overlap(a, b):
    return a[0] < b[1] and b[0] < a[1] and a[2] < b[3] and b[2] < a[3]


# increments in milli-arc-seconds.  The second list holds values that are NOT exactly representable
# in binary (still <= 3 decimals, so extents stay 3-decimal numbers): (w_long - e_long) / long_inc
# is then not an exact integer in floating point.
INCS_M = [int(x * 1000) for x in INCS]
INCS_NONDYADIC_M = [90900, 36600, 33333, 66667, 133333, 327273, 64286, 47100, 100100, 1234567, 30003]


def _finish(sg):
    sg['s_lat'] = sg['s_lat_m'] / 1000.0
    sg['e_long'] = sg['e_long_m'] / 1000.0
    sg['lat_inc'] = sg['lat_inc_m'] / 1000.0
    sg['long_inc'] = sg['long_inc_m'] / 1000.0
    b = _bbox(sg)
    sg['n_lat'], sg['w_long'] = b[1], b[3]
    return sg


def gen_root(rng, name):
    pool = INCS_NONDYADIC_M if rng.random() < 0.3 else INCS_M
    lat_inc = rng.choice(pool)
    long_inc = lat_inc if rng.random() < 0.5 else rng.choice(pool)
    size = lambda: rng.choice([3, 3, 4, 4, 5, 6, 7, 8, 10, 12, 16, 24, 40, 60])
    nrow, ncol = size(), size()
    while (nrow - 1) * lat_inc > 150 * 3600000:
        nrow = max(3, nrow // 2)
    while (ncol - 1) * long_inc > 300 * 3600000:
        ncol = max(3, ncol // 2)
    lo = -(88 * 3600000 // lat_inc)
    hi = (88 * 3600000 - (nrow - 1) * lat_inc) // lat_inc
    s_lat = rng.randrange(lo, hi + 1) * lat_inc
    lo = -(179 * 3600000 // long_inc)
    hi = (179 * 3600000 - (ncol - 1) * long_inc) // long_inc
    e_long = rng.randrange(lo, hi + 1) * long_inc
    edge = rng.random()
    if edge < 0.05:
        e_long = -180 * 3600000                                   # eastern extent exactly on the antimeridian (180 E)
    elif edge < 0.10:
        e_long = 180 * 3600000 - (ncol - 1) * long_inc            # western extent exactly 180 W
    elif edge < 0.14:
        e_long = -((ncol // 2) * long_inc)                        # straddles the prime meridian, node on lon = 0
    if edge < 0.14 and rng.random() < 0.5:
        s_lat = -((nrow // 2) * lat_inc)                          # and the equator
    if 0.14 <= edge < 0.24:
        # an extent line exactly on the equator / the prime meridian (a stored value of exactly 0.0)
        which = rng.choice(['s', 'n', 'e', 'w', 'sn-e', 'sw'])
        if 's' in which:
            s_lat = 0
        elif 'n' in which:
            s_lat = -(nrow - 1) * lat_inc
        if 'e' in which:
            e_long = 0
        elif 'w' in which:
            e_long = -(ncol - 1) * long_inc
    k = rng.random() if not edge < 0.24 else 1.0
    if k < 0.2:           # sub-arc-second extents (dyadic)
        s_lat += rng.choice([500, 250, 125])
        e_long += rng.choice([500, 250, 125])
    elif k < 0.35:        # sub-arc-second extents (3 decimals, not dyadic)
        s_lat += rng.randrange(1, 1000)
        e_long += rng.randrange(1, 1000)
    return _finish({'name': name, 'parent': 'NONE', 's_lat_m': s_lat, 'e_long_m': e_long, 'lat_inc_m': lat_inc,
                    'long_inc_m': long_inc, 'nrow': nrow, 'ncol': ncol})


def gen_child(rng, parent, name):
    if parent['nrow'] < 3 or parent['ncol'] < 3:
        return None
    for _ in range(20):
        dr = rng.choice([2, 2, 3, 4, 5, 6, 8, 10])
        dc = dr if rng.random() < 0.6 else rng.choice([2, 3, 4, 5])
        if parent['lat_inc_m'] % dr or parent['long_inc_m'] % dc:
            continue
        li, lo = parent['lat_inc_m'] // dr, parent['long_inc_m'] // dc
        if li < 30000 or lo < 30000:
            continue
        i0 = rng.randrange(0, parent['nrow'] - 1)
        i1 = rng.randrange(i0 + 1, min(parent['nrow'], i0 + 1 + max(1, 59 // dr)))
        j0 = rng.randrange(0, parent['ncol'] - 1)
        j1 = rng.randrange(j0 + 1, min(parent['ncol'], j0 + 1 + max(1, 59 // dc)))
        nrow, ncol = (i1 - i0) * dr + 1, (j1 - j0) * dc + 1
        if nrow < 3 or ncol < 3 or nrow > 60 or ncol > 60:
            continue
        return _finish({'name': name, 'parent': parent['name'], 's_lat_m': parent['s_lat_m'] + i0 * parent['lat_inc_m'],
                        'e_long_m': parent['e_long_m'] + j0 * parent['long_inc_m'], 'lat_inc_m': li, 'long_inc_m': lo,
                        'nrow': nrow, 'ncol': ncol})
    return None


def gen_spec(rng):
    nsub = rng.choice([1, 1, 2, 2, 2, 3, 3, 4])
    names = ['AUSTPRNT', 'SUBGRD01', 'vicNSW', 'G4']
    rng.shuffle(names)
    sgs = [gen_root(rng, names[0])]
    tries = 0
    while len(sgs) < nsub and tries < 60:
        tries += 1
        nm = names[len(sgs)]
        if rng.random() < 0.65:
            par = rng.choice(sgs)
            ch = gen_child(rng, par, nm)
            if ch is None:
                continue
            # siblings (same parent) and any same-or-coarser grid must not overlap it ambiguously:
            # allowed overlaps are only with its ancestors (strictly coarser)
            ok = True
            for o in sgs:
                if o is par:
                    continue
                if _overlap(_bbox(ch), _bbox(o)):
                    # overlapping a non-parent: only fine if o is an ancestor (coarser in both axes)
                    anc = par
                    is_anc = False
                    while anc is not None:
                        if anc is o:
                            is_anc = True
                            break
                        anc = next((x for x in sgs if x['name'] == anc['parent']), None)
                    if not is_anc:
                        ok = False
                        break
            if ok:
                sgs.append(ch)
        else:
            r = gen_root(rng, nm)
            if all(not _overlap(_bbox(r), _bbox(o)) for o in sgs):
                sgs.append(r)
    rng.shuffle(sgs)
    if rng.random() < 0.12:
        # PARENT labels that do not mirror the geometric nesting (the statement orders overlapping
        # sub-grids by spacing only): a nested grid labelled NONE, a misspelt parent, a label pointing elsewhere
        for sg in sgs:
            if rng.random() < 0.5:
                sg['parent'] = rng.choice(['NONE', 'NOSUCH', rng.choice(sgs)['name']])
                if sg['parent'] == sg['name']:
                    sg['parent'] = 'NONE'
    fields = []
    for sg in sgs:
        k = rng.random()
        if k < 0.06:
            classes = ['zero'] * 4                      # identity grid: every field exactly 0
        elif k < 0.25:
            classes = [rng.choice(FIELD_CLASSES), rng.choice(FIELD_CLASSES), 'zero', 'zero']   # accuracies not supplied
        else:
            classes = [rng.choice(FIELD_CLASSES) for _ in range(4)]
        fl = [gen_poly(rng, c, sg['nrow'], sg['ncol']) for c in classes]
        k2 = rng.random()
        if k2 < 0.08:
            # sentinel values: the two accuracy fields are -1.0 ("not available") / 0.0 at a few nodes
            nodes = [(rng.randrange(sg['nrow']), rng.randrange(sg['ncol'])) for _ in range(rng.randrange(1, 5))]
            v = rng.choice([-1.0, -1.0, 0.0])
            for f in (fl[2], fl[3]):
                f['patch'] = [[r_, c_, v] for (r_, c_) in nodes]
        elif k2 < 0.16 and sg['nrow'] >= 4 and sg['ncol'] >= 4:
            # every field has equal values at the four corners of ONE cell without being constant there:
            # parabolas with their vertex on the cell centre, a*(r-i)(r-i-1) + b*(c-j)(c-j-1) + const
            i, j = rng.randrange(0, sg['nrow'] - 1), rng.randrange(0, sg['ncol'] - 1)
            sg['flat_cell'] = [i, j]
            for n in range(4):
                a, b, c0 = rng.randrange(-8, 9), rng.randrange(-8, 9), rng.randrange(-64, 65)
                if n < 2 and a == 0 and b == 0:
                    a = 3
                if n >= 2 and rng.random() < 0.5:
                    a = b = 0
                fl[n] = {'cls': 'biquadratic', 'k': 6, 'terms': [[0, 0, 64 * (a * i * (i + 1) + b * j * (j + 1)) + c0],
                                                                   [1, 0, -64 * a * (2 * i + 1)], [2, 0, 64 * a],
                                                                   [0, 1, -64 * b * (2 * j + 1)], [0, 2, 64 * b]]}
        fields.append(fl)
        sg['created'] = '%02d%02d%04d' % (rng.randrange(1, 29), rng.randrange(1, 13), rng.randrange(1990, 2031))
        sg['updated'] = '%02d%02d%04d' % (rng.randrange(1, 29), rng.randrange(1, 13), rng.randrange(1990, 2031))
    header = {'gs_type': 'SECONDS', 'version': rng.choice(['NTv2.0', 'NTv2.1']),
              'system_f': rng.choice(['GDA94', 'AGD66', 'AGD84', 'NAD27']), 'system_t': rng.choice(['GDA2020', 'GDA94', 'NAD83']),
              'major_f': rng.choice([6378137.0, 6378160.0, 6378206.4]), 'minor_f': rng.choice([6356752.314, 6356774.719, 6356583.8]),
              'major_t': 6378137.0, 'minor_t': rng.choice([6356752.314, 6356752.31414])}
    return {'header': header, 'subgrids': sgs, 'fields': fields, 'nul_padding': rng.random() < 0.25}


def shift_spec(spec, dr, dc):
    """the same file layout (same sub-grids, sizes, fields - hence the same byte size) moved by dr / dc cells
    of the coarsest spacing: another grid under the same path; None if it would leave the globe"""
    import copy
    out = copy.deepcopy(spec)
    li = max(sg['lat_inc_m'] for sg in out['subgrids'])
    lo = max(sg['long_inc_m'] for sg in out['subgrids'])
    for sg in out['subgrids']:
        if li % sg['lat_inc_m'] or lo % sg['long_inc_m']:
            return None
        sg['s_lat_m'] += dr * li
        sg['e_long_m'] += dc * lo
        sg.pop('n_lat', None)
        sg.pop('w_long', None)
        _finish(sg)
        b = _bbox(sg)
        if b[0] < -88 * 3600 or b[1] > 88 * 3600 or b[2] < -179.5 * 3600 or b[3] > 179.5 * 3600:
            return None
    return out


def build_file(spec):
    fields = spec['fields']

    def nv(k, r, c):
        return tuple(poly_eval(p, r, c) for p in fields[k])
    data, layout = ntv2_writer.build(spec, nv)
    return data, layout


# ---------------------------------------------------------------------------
# reference model
# ---------------------------------------------------------------------------

class Model(object):
    def __init__(self, spec, present=None):
        self.spec = spec
        self.sgs = spec['subgrids']
        self.present = present      # names readable from a torn file (None = all)

    def locate(self, lat, lon):
        lat_s = lat * 3600
        lon_s = lon * -3600
        inside = []
        for k, sg in enumerate(self.sgs):
            if self.present is not None and sg['name'] not in self.present:
                continue
            b = _bbox(sg)
            if b[0] <= lat_s < b[1] and b[2] <= lon_s < b[3]:
                inside.append(k)
        if not inside:
            return None
        k = min(inside, key=lambda kk: self.sgs[kk]['lat_inc'])
        sg = self.sgs[k]
        # the enclosing cell; a position within rounding error of the northern / western extent
        # (still strictly inside) belongs to the last row / column of cells
        row = min(int((lat_s - sg['s_lat']) / sg['lat_inc']), sg['nrow'] - 2)
        col = min(int((lon_s - sg['e_long']) / sg['long_inc']), sg['ncol'] - 2)
        y = (lat_s - (sg['s_lat'] + row * sg['lat_inc'])) / sg['lat_inc']
        x = (lon_s - (sg['e_long'] + col * sg['long_inc'])) / sg['long_inc']
        return {'k': k, 'row': row, 'col': col, 'x': x, 'y': y, 'n_inside': len(inside), 'inside': inside}

    def posclass(self, loc):
        if loc is None:
            return 'outside'
        sg = self.sgs[loc['k']]
        row, col, x, y = loc['row'], loc['col'], loc['x'], loc['y']
        eps = 1e-7
        onx = x < eps or x > 1 - eps
        ony = y < eps or y > 1 - eps
        ring = []
        if row == 0:
            ring.append('S')
        if row >= sg['nrow'] - 2:
            ring.append('N')
        if col == 0:
            ring.append('E')
        if col >= sg['ncol'] - 2:
            ring.append('W')
        base = 'node' if (onx and ony) else ('edge' if (onx or ony) else 'interior')
        if ring:
            return 'ring-%s/%s' % (''.join(ring), base)
        return base

    def expected(self, loc, method):
        """-> list of 4 (kind, value, tol) ; kind None = no expectation"""
        k, row, col, x, y = loc['k'], loc['row'], loc['col'], loc['x'], loc['y']
        out = []
        for p in self.spec['fields'][k]:
            n1 = poly_eval(p, row, col)
            n2 = poly_eval(p, row, col + 1)
            n3 = poly_eval(p, row + 1, col)
            n4 = poly_eval(p, row + 1, col + 1)
            corner_range = max(n1, n2, n3, n4) - min(n1, n2, n3, n4)
            maxabs = max(abs(n1), abs(n2), abs(n3), abs(n4), 1.0)
            slack = 64 * 2.3e-16 * maxabs * 16
            cls = effective_class(p)
            eps = 1e-9
            at_node = (x < eps or x > 1 - eps) and (y < eps or y > 1 - eps)
            if method == 'bilinear':
                v = n1 + (n2 - n1) * x + (n3 - n1) * y + (n1 + n4 - n2 - n3) * x * y
                out.append(('bilinear-blend', v, 1e-6 + 1e-6 * corner_range + slack))
            else:
                L = poly_grad_bound(p, row, col)
                tol = 1e-6 + 1e-6 * max(L, corner_range) + slack
                if cls in ('linear', 'bilinear', 'biquadratic'):
                    nm = 'linear-field' if cls == 'linear' else ('biquadratic-field')
                    out.append((nm, poly_eval(p, row + y, col + x), tol))
                elif at_node:
                    out.append(('node-value', poly_eval(p, round(row + y), round(col + x)), tol))
                else:
                    out.append((None, None, None))
        return out

    def admissible(self, loc, method):
        """set of (k, r, c) the property allows the answer to depend on"""
        k, row, col, x, y = loc['k'], loc['row'], loc['col'], loc['x'], loc['y']
        sg = self.sgs[k]
        if method == 'bilinear':
            r0, r1, c0, c1 = row, row + 1, col, col + 1
            e = 1e-6
            if y < e:
                r0 -= 1
            if y > 1 - e:
                r1 += 1
            if x < e:
                c0 -= 1
            if x > 1 - e:
                c1 += 1
        else:
            r0, r1, c0, c1 = row - 2, row + 3, col - 2, col + 3
        return set((k, r, c) for r in range(max(0, r0), min(sg['nrow'] - 1, r1) + 1)
                   for c in range(max(0, c0), min(sg['ncol'] - 1, c1) + 1))


def classify_offset(off, layout, spec, size):
    if off < 0:
        return ('before-file', None)
    if off < 176:
        return ('overview-header', None)
    for k, start in enumerate(layout):
        sg = spec['subgrids'][k]
        n = sg['nrow'] * sg['ncol']
        if start - 176 <= off < start:
            return ('subgrid-header', k)
        if start <= off < start + 16 * n:
            idx = (off - start) // 16
            return ('node', (k, idx // sg['ncol'], idx % sg['ncol']))
    if off >= size:
        return ('past-end', None)
    return ('trailer', None)


def corrupt_nodes(data, layout, spec, keep):
    """Stored-byte corruption of every node record NOT in `keep`: each float32
    is replaced by a finite, clearly different value (v + 1000*(field+1)), i.e. a
    multi-bit flip whose decoded value stays finite so that a zero-weight read
    cannot turn into NaN by accident.  Returns (bytes, n_records_changed, bits_flipped)."""
    arr = bytearray(data)
    orig = np.frombuffer(bytes(data), dtype=np.uint8)
    changed = 0
    for k, sg in enumerate(spec['subgrids']):
        n = sg['nrow'] * sg['ncol']
        reg = np.frombuffer(arr, dtype='<f4', count=n * 4, offset=layout[k]).reshape(sg['nrow'], sg['ncol'], 4)
        saved = [(r, c, reg[r, c].copy()) for (kk, r, c) in keep if kk == k]
        reg += np.array([1000.0, 2000.0, 3000.0, 4000.0], dtype='<f4')
        for r, c, v in saved:
            reg[r, c] = v
        changed += n - len(saved)
    new = np.frombuffer(bytes(arr), dtype=np.uint8)
    bits = int(np.unpackbits(np.bitwise_xor(orig, new)).sum())
    return bytes(arr), changed, bits


# ---------------------------------------------------------------------------
# the check
# ---------------------------------------------------------------------------

class C17(CheckBase):
    id = 'C17'
    title = 'NTv2 grid files read faithfully, interpolated only from the right nodes'
    quick_runs = 6000
    thorough_runs = 150000 + 4 * 128
    quick_budget_s = 60
    thorough_budget_s = 1200
    run_timeout = 60
    required_probes = ['stencil_would_leave_grid', 'overlap_resolved_by_spacing', 'query_in_last_subgrid_of_file',
                       'query_in_non_first_subgrid', 'relevant_corruption_changes_answer',
                       'just_inside', 'just_outside', 'second_grid_file_in_run', 'ulp_inside_boundary']
    components = {
        'real': ['geodepy.ntv2reader (read_ntv2_file, interpolate_ntv2, SubGrid.ntv2_bilinear / ntv2_bicubic)',
                 'geodepy.transform.ntv2_2d', 'struct', 'numpy'],
        'simulated': ['the disk under ntv2reader: SimFS bound over geodepy.ntv2reader.open (byte-exact I/O history)',
                      'storage faults: corruption of node records, read error (EIO / EINTR / ETIMEDOUT / EAGAIN) on the n-th read, torn (truncated) file',
                      'caller threads of the concurrent query batches (baton threads, seeded scheduler, pre-emption at every line of '
                      'ntv2reader.py / transform.py)'],
        'stub': ['the grid *writer* is a harness component (checks/ntv2_writer.py) built from the NTv2 layout'],
    }
    assumptions = [
        'files are generated by the harness writer from the published NTv2 layout; fields are polynomials in the node indices with float32-exact node values',
        'overlapping sub-grids of equal spacing are not generated (the statement only orders by fineness)',
        'tolerance = 1e-6 unit + 1e-6 * field change across the cell (corner range; for bicubic the larger of corner range and the gradient bound over the cell) + 64 ulp of arithmetic slack',
        'bicubic may depend on nodes within two cells of the enclosing cell (rows row-2..row+3, cols col-2..col+3, clipped); bilinear on the 4 enclosing nodes only',
    ]
    rule = ('run = generated grid file (1..4 sub-grids, random analytic fields) on the simulated disk + 5..40 queries (some as boundary pairs '
            'either side of an extent line, some as batches of 2-4 concurrent callers of one grid object) + storage fault plan, plus a race '
            'sweep (first query of a fresh grid object stopped at each 1/24, thorough 1/128, of its length while a second caller queries); '
            'non-trivial = at least one query landed inside a sub-grid and was judged; distinct = set of (method, position class, topology class, '
            'field classes, fault kind) tuples of the run, hashed')
    simulated_time_note = 'no clock in this component; progress is counted in storage operations (counters.io_ops)'

    def setup_process(self):
        import geodepy.ntv2reader as nr
        import geodepy.transform as tf
        self.nr, self.tf = nr, tf
        import os
        import sys
        self.pkg_dir = os.path.dirname(os.path.abspath(nr.__file__)) + os.sep
        from detsim.sched import wrap_module_locks
        wrap_module_locks([m for n, m in sorted(sys.modules.items())
                           if m is not None and (n == 'geodepy' or n.startswith('geodepy.')) and not n.startswith('geodepy.tests')])
        self.real_open = open

    # ---------------------------------------------------------------- generate
    # race sweep: the first query of a freshly read grid object is stopped at each 1/24 (thorough 1/128) of its
    # length (measured in a forked child), a second caller then queries the same grid object
    RACE_POINTS_QUICK = 24
    RACE_POINTS_THOROUGH = 128
    N_RACE_SWEEP = 4 * RACE_POINTS_QUICK
    N_RANDOM_THOROUGH = 150000

    def _race_trace(self, rng, j, points):
        combo = j % 4
        frac = ((j // 4) % points + rng.random()) / points
        spec = gen_spec(rng)
        sgs = spec['subgrids']
        subs = []
        for t in range(2):
            sg = rng.choice(sgs)
            lat, lon = self._position(rng, sg, rng.choice(['interior', 'ring', 'node', 'corner']))
            o = {'id': 1000 + t, 'kind': 'tf' if combo & 1 else 'q', 'lat': lat, 'lon': lon,
                 'method': 'bicubic' if combo & 2 else 'bilinear', 'cls': 'race', 'rot': 'none'}
            if o['kind'] == 'tf':
                o.update(fwd=rng.random() < 0.5, default_args=False)
            subs.append(o)
        ops = [{'id': 999, 'kind': 'concurrent', 'subs': subs, 'seed': rng.getrandbits(32), 'mode': 'preempt',
                'frac': round(frac, 5), 'diag': rng.random() < 0.3}]
        for n in range(4):
            sg = rng.choice(sgs)
            lat, lon = self._position(rng, sg, rng.choice(['interior', 'ring', 'node']))
            ops.append({'id': n, 'kind': 'q', 'lat': lat, 'lon': lon, 'method': rng.choice(['bicubic', 'bilinear']), 'cls': 'after-race',
                        'rot': 'none'})
        return {'property': 'C17', 'spec': spec, 'path': 'race.gsb', 'ops': ops, 'faults': [], 'sweep': True}

    def generate(self, rng, i, tier):
        if i < self.N_RACE_SWEEP:
            return self._race_trace(rng, i, self.RACE_POINTS_QUICK)
        if tier == 'thorough' and i >= self.N_RANDOM_THOROUGH:
            return self._race_trace(rng, i - self.N_RANDOM_THOROUGH, self.RACE_POINTS_THOROUGH)
        spec = gen_spec(rng)
        model = Model(spec)
        sgs = spec['subgrids']
        nq = rng.choice([5, 8, 12, 20, 30, 40])
        ops = []
        fault_run = rng.random() < 0.25
        for j in range(nq):
            k = rng.randrange(len(sgs))
            sg = sgs[k]
            cls = rng.choice(['node', 'edge', 'interior', 'interior', 'ring', 'ring', 'ring', 'corner',
                              'just-inside', 'just-outside', 'far', 'ulp-inside'])
            lat, lon = self._position(rng, sg, cls)
            if sg.get('flat_cell') and rng.random() < 0.3:
                fi, fj = sg['flat_cell']
                lat = (sg['s_lat'] + (fi + self._frac(rng)) * sg['lat_inc']) / 3600
                lon = -(sg['e_long'] + (fj + self._frac(rng)) * sg['long_inc']) / 3600
                cls = 'flat-cell'
            method = rng.choice(['bicubic', 'bicubic', 'bilinear'])
            callform = {'form': rng.choice([None, None, None, 'kw', 'int']), 'num': rng.choice([None, None, None, 'np'])}
            if rng.random() < 0.2:
                ops.append({'id': j, 'kind': 'tf', 'lat': lat, 'lon': lon, 'method': method, 'fwd': rng.random() < 0.5,
                            'default_args': rng.random() < 0.3, 'cls': cls})
            else:
                ops.append({'id': j, 'kind': 'q', 'lat': lat, 'lon': lon, 'method': method, 'cls': cls,
                            'rot': 'none' if fault_run else rng.choice(['B', 'B', 'inplace', 'inplace', 'none', 'relevant'])})
            ops[-1].update(callform)
        faults = []
        if fault_run:
            for _ in range(rng.choice([1, 1, 2])):
                if rng.random() < 0.3:
                    faults.append({'kind': 'torn', 'keep_frac': round(rng.random(), 4)})
                else:
                    faults.append({'kind': 'eio', 'op': rng.choice([-1] + [o['id'] for o in ops]), 'nth': rng.randrange(1, 70),
                                   'errno': rng.choice(['EIO', 'EIO', 'EINTR', 'ETIMEDOUT', 'EAGAIN'])})
        if rng.random() < 0.15:
            # boundary pair: a point a hair inside an extent line, then its mirror image a hair outside it, same
            # call, same method (an answer remembered under a rounded key must not leak across the line)
            sg = rng.choice(sgs)
            b = _bbox(sg)
            rr = rng.randrange(0, sg['nrow'] - 1) + self._frac(rng)
            cc = rng.randrange(0, sg['ncol'] - 1) + self._frac(rng)
            lat = (sg['s_lat'] + rr * sg['lat_inc']) / 3600
            lon = -(sg['e_long'] + cc * sg['long_inc']) / 3600
            d = rng.choice([1e-9, 2e-9, 4e-9, 3e-10, 2e-8])
            side = rng.choice('SNEW')
            pin, pout = (lat, lon), (lat, lon)
            if side == 'S':
                pin, pout = (b[0] / 3600 + d, lon), (b[0] / 3600 - d, lon)
            elif side == 'N':
                pin, pout = (b[1] / 3600 - d, lon), (b[1] / 3600 + d, lon)
            elif side == 'E':
                pin, pout = (lat, -b[2] / 3600 - d), (lat, -b[2] / 3600 + d)
            else:
                pin, pout = (lat, -b[3] / 3600 + d), (lat, -b[3] / 3600 - d)
            method = rng.choice(['bicubic', 'bilinear'])
            kind = rng.choice(['tf', 'tf', 'q'])
            fwd = rng.random() < 0.5
            order = [pin, pout] if rng.random() < 0.7 else [pout, pin]
            at = rng.randrange(0, len(ops) + 1)
            for n, (la, lo) in enumerate(order):
                o = {'id': len(ops) + 100 + n, 'kind': kind, 'lat': la, 'lon': lo, 'method': method, 'cls': 'boundary-pair'}
                if kind == 'tf':
                    o.update(fwd=fwd, default_args=False)
                else:
                    o['rot'] = 'none'
                ops.insert(at + n, o)
        if not fault_run and rng.random() < 0.12:
            # several callers use the grid object at the same time
            T = rng.choice([2, 2, 3, 4])
            subs = []
            for t in range(T):
                src = dict(rng.choice(ops))
                if rng.random() < 0.5:
                    sg = rng.choice(sgs)
                    src['lat'], src['lon'] = self._position(rng, sg, rng.choice(['node', 'interior', 'ring', 'corner', 'edge']))
                    src['cls'] = 'concurrent'
                src.pop('g', None)
                src['rot'] = 'none'
                src['id'] = 1000 + t
                subs.append(src)
            ops.insert(rng.randrange(0, len(ops) + 1), {'id': 999, 'kind': 'concurrent', 'subs': subs, 'seed': rng.getrandbits(32)})
        path = rng.choice(['/data/grids/test.gsb', 'grid.gsb', './sub/../grid file.gsb', '/sim/NTv2_0.gsb'])
        tr = {'property': 'C17', 'spec': spec, 'path': path, 'ops': ops, 'faults': faults}
        if not fault_run and rng.random() < 0.08:
            # later the file is replaced IN PLACE by another grid of the same byte size (same time stamp: the
            # simulated disk's clock stands still) and read again
            for _ in range(6):
                dr, dc = rng.choice([-3, -2, -1, 1, 2, 3]), rng.choice([-3, -2, -1, 0, 1, 2, 3])
                spec2 = shift_spec(spec, dr, dc)
                if spec2 is not None:
                    break
            if spec2 is not None:
                ops2 = []
                for j in range(rng.choice([3, 5, 8])):
                    sg = rng.choice(spec2['subgrids'])
                    cls = rng.choice(['node', 'interior', 'ring', 'corner', 'edge', 'just-inside', 'just-outside', 'far'])
                    lat, lon = self._position(rng, sg, cls)
                    o = {'id': 2000 + j, 'kind': rng.choice(['q', 'q', 'tf']), 'lat': lat, 'lon': lon,
                         'method': rng.choice(['bicubic', 'bilinear']), 'cls': cls, 'rot': 'none'}
                    if o['kind'] == 'tf':
                        o.update(fwd=rng.random() < 0.5, default_args=False)
                    ops2.append(o)
                tr['rewrite'] = {'shift': [dr, dc], 'ops': ops2}
        if not fault_run and rng.random() < 0.3:
            spec2 = gen_spec(rng)
            extra = []
            for j in range(rng.choice([2, 4, 8])):
                sg = rng.choice(spec2['subgrids'])
                cls = rng.choice(['node', 'interior', 'ring', 'corner', 'edge'])
                lat, lon = self._position(rng, sg, cls)
                extra.append({'id': len(ops) + j, 'kind': 'q', 'lat': lat, 'lon': lon, 'method': rng.choice(['bicubic', 'bilinear']),
                              'cls': cls, 'rot': rng.choice(['none', 'inplace', 'B']), 'g': 1})
            # interleave the second grid's queries with the first grid's
            for e in extra:
                ops.insert(rng.randrange(0, len(ops) + 1), e)
            # sometimes under the same file NAME in another directory
            import posixpath
            tr['other'] = {'spec': spec2, 'path': 'other/second.gsb' if rng.random() < 0.6 else 'other/' + posixpath.basename(path)}
        return tr

    @staticmethod
    def _frac(rng):
        k = rng.randrange(4)
        if k == 0:
            return rng.choice([0.5, 0.25, 0.75, 0.125])
        if k == 1:
            return round(rng.uniform(0.000001, 0.999999), 6)
        if k == 2:
            return rng.choice([1e-6, 0.999999, 1e-4, 0.9999])
        return rng.uniform(0.001, 0.999)

    def _position(self, rng, sg, cls):
        nrow, ncol = sg['nrow'], sg['ncol']
        fr = self._frac
        if cls == 'node':
            rr = rng.randrange(0, nrow - 1)
            cc = rng.randrange(0, ncol - 1)
        elif cls == 'edge':
            if rng.random() < 0.5:
                rr, cc = rng.randrange(0, nrow - 1), rng.randrange(0, ncol - 1) + fr(rng)
            else:
                rr, cc = rng.randrange(0, nrow - 1) + fr(rng), rng.randrange(0, ncol - 1)
        elif cls == 'interior':
            rr, cc = rng.randrange(0, nrow - 1) + fr(rng), rng.randrange(0, ncol - 1) + fr(rng)
        elif cls == 'ring':
            side = rng.choice('SNEW')
            rr = rng.randrange(0, nrow - 1) + fr(rng)
            cc = rng.randrange(0, ncol - 1) + fr(rng)
            if side == 'S':
                rr = fr(rng)
            elif side == 'N':
                rr = nrow - 2 + fr(rng)
            elif side == 'E':
                cc = fr(rng)
            else:
                cc = ncol - 2 + fr(rng)
        elif cls == 'corner':
            rr = rng.choice([0, nrow - 2]) + fr(rng)
            cc = rng.choice([0, ncol - 2]) + fr(rng)
        elif cls == 'ulp-inside':
            # 1..3 representable numbers inside an extent boundary (decimal degrees)
            rr = rng.randrange(0, nrow - 1) + fr(rng)
            cc = rng.randrange(0, ncol - 1) + fr(rng)
            lat = (sg['s_lat'] + rr * sg['lat_inc']) / 3600
            lon = -(sg['e_long'] + cc * sg['long_inc']) / 3600
            b = _bbox(sg)
            side = rng.choice('SNEW')
            k = rng.randrange(1, 4)
            if side in 'SN':
                lat = b[0] / 3600 if side == 'S' else b[1] / 3600
                for _ in range(k):
                    lat = math.nextafter(lat, 1e9 if side == 'S' else -1e9)
            else:
                lon = -b[2] / 3600 if side == 'E' else -b[3] / 3600
                for _ in range(k):
                    lon = math.nextafter(lon, -1e9 if side == 'E' else 1e9)
            return lat, lon
        elif cls in ('just-inside', 'just-outside'):
            rr = rng.randrange(0, nrow - 1) + fr(rng)
            cc = rng.randrange(0, ncol - 1) + fr(rng)
            lat = (sg['s_lat'] + rr * sg['lat_inc']) / 3600
            lon = -(sg['e_long'] + cc * sg['long_inc']) / 3600
            d = 1e-9 if cls == 'just-inside' else -1e-9
            b = _bbox(sg)
            side = rng.choice('SNEW')
            if side == 'S':
                lat = b[0] / 3600 + d
            elif side == 'N':
                lat = b[1] / 3600 - d
            elif side == 'E':
                lon = -b[2] / 3600 - d
            else:
                lon = -b[3] / 3600 + d
            return lat, lon
        else:
            return round(rng.uniform(-89, 89), 6), round(rng.uniform(-179, 179), 6)
        lat = (sg['s_lat'] + rr * sg['lat_inc']) / 3600
        lon = -(sg['e_long'] + cc * sg['long_inc']) / 3600
        # exact-boundary positions only when the decimal-degree value maps back exactly
        if rr == 0 and lat * 3600 != sg['s_lat']:
            lat = (sg['s_lat'] + 0.5 * sg['lat_inc']) / 3600
        if cc == 0 and lon * -3600 != sg['e_long']:
            lon = -(sg['e_long'] + 0.5 * sg['long_inc']) / 3600
        return lat, lon

    # ----------------------------------------------------------------- execute
    def execute(self, trace):
        self._undo_global = None
        try:
            return self._execute(trace)
        finally:
            if self._undo_global is not None:
                self._undo_global()

    def _execute(self, trace):
        nr, tf = self.nr, self.tf
        spec = trace['spec']
        log = EventLog()
        fs = SimFS(cwd='/sim')
        nr.open = fs.open
        fs.install_os_seam(nr)
        self._undo_global = fs.install_global_seam()
        viol = []
        stats = {}
        sigset = set()

        def bump(k, n=1):
            stats[k] = stats.get(k, 0) + n

        def V(oracle, site, detail):
            viol.append({'oracle': oracle, 'site': site, 'detail': detail})
            log.add('V', oracle, site)

        try:
            data, layout = build_file(spec)
        except Exception as e:          # a shrunk spec that cannot be built
            return {'digest': short_hash(repr(e)), 'violations': [], 'stats': {}, 'sets': {}, 'sig': 'unbuildable',
                    'nontrivial': False, 'sample': None, 'recorded': trace}
        path = trace['path']
        apath = fs.abspath(path)
        fs.put(path, data)
        faults = trace.get('faults', [])
        fault_run = bool(faults)
        torn = [f for f in faults if f['kind'] == 'torn']
        keep = None
        if torn:
            keep = int(torn[0]['keep_frac'] * len(data))
            fs.truncate(path, keep)
            bump('fault:torn')
            log.add('torn', keep)
        eio_by_op = {}
        for f in faults:
            if f['kind'] == 'eio':
                eio_by_op.setdefault(f['op'], set()).add(f['nth'])
                import errno as _errno
                fs.eio_errno = getattr(_errno, f.get('errno', 'EIO'))

        def arm(opid):
            fs.eio_plan = {}
            if opid in eio_by_op:
                base = fs.read_count.get(apath, 0)
                fs.eio_plan[apath] = set(base + n for n in eio_by_op[opid])

        topo = self._topology(spec)
        fclasses = sorted(set(effective_class(p) for fl in spec['fields'] for p in fl))
        # ---- read the file -------------------------------------------------------
        arm(-1)
        grid = None
        try:
            grid = nr.read_ntv2_file(path)
            log.add('read-ok')
        except Exception as e:
            log.add('read-raised', type(e).__name__)
            if not fault_run:
                V('read-raised', 'read_ntv2_file', {'exc': type(e).__name__, 'msg': str(e)[:200]})
            else:
                bump('fault_run_read_raised')
        fs.eio_plan = {}
        if apath not in [p for p, m in fs.opens]:
            raise kernel.HarnessError('storage seam bypassed: read_ntv2_file did not open the file through geodepy.ntv2reader.open')
        present = None
        if grid is not None:
            self._check_meta(grid, spec, path, V, keep, layout)
            if torn:
                # only sub-grids whose 176-byte header survived completely are judged
                present = set(s['name'] for k, s in enumerate(spec['subgrids'])
                              if layout[k] <= keep and s['name'] in grid.subgrids)
        model = Model(spec, present)
        judged = 0
        # an optional second, unrelated grid file held open by the same caller: queries alternate
        # between the two grid objects (history / cross-file dimension: nothing read for one grid
        # may influence an answer for the other)
        other = None
        oth = trace.get('other')
        if oth and not fault_run and grid is not None:
            try:
                odata, olayout = build_file(oth['spec'])
                fs.put(oth['path'], odata)
                ogrid = nr.read_ntv2_file(oth['path'])
                self._check_meta(ogrid, oth['spec'], oth['path'], V, None, olayout)
                other = (ogrid, Model(oth['spec']), oth['path'], fs.abspath(oth['path']), odata, olayout, oth['spec'],
                         self._topology(oth['spec']), sorted(set(effective_class(p) for fl in oth['spec']['fields'] for p in fl)))
                bump('probe:second_grid_file_in_run')
            except Exception as e:
                V('read-raised', 'read_ntv2_file', {'exc': type(e).__name__, 'msg': str(e)[:200], 'file': 'second grid'})
        if grid is not None:
            for op in trace['ops']:
                if op.get('g') == 1:
                    if other is None:
                        continue
                    og, om, opath, oap, od, ol, ospec, otopo, ofc = other
                    judged += self._do_op(op, og, om, fs, opath, oap, od, ol, ospec, False, False, arm,
                                          V, bump, log, sigset, otopo, ofc)
                    continue
                judged += self._do_op(op, grid, model, fs, path, apath, data, layout, spec, fault_run, bool(torn), arm,
                                      V, bump, log, sigset, topo, fclasses)
        rw = trace.get('rewrite')
        if rw and grid is not None and not fault_run:
            spec2 = shift_spec(spec, rw['shift'][0], rw['shift'][1])
            if spec2 is not None:
                data2, layout2 = build_file(spec2)
                if len(data2) == len(data):
                    fs.put(path, data2, in_place=True, mtime=fs.mtime.get(apath))
                    bump('probe:file_replaced_in_place_same_size_same_mtime')
                    log.add('rewrite', rw['shift'])
                    try:
                        grid2 = nr.read_ntv2_file(path)
                    except Exception as e:
                        grid2 = None
                        V('read-raised', 'read_ntv2_file', {'exc': type(e).__name__, 'msg': str(e)[:200], 'file': 'replaced in place'})
                    if grid2 is not None:
                        self._check_meta(grid2, spec2, path, lambda o, site, d: V(o, site, dict(d, after='file replaced in place')),
                                         None, layout2)
                        model2 = Model(spec2)
                        topo2 = self._topology(spec2)
                        for op in rw['ops']:
                            judged += self._do_op(op, grid2, model2, fs, path, apath, data2, layout2, spec2, False, False, arm,
                                                  V, bump, log, sigset, topo2, fclasses)
        for k, v in fs.fired.items():
            if k in ('eio',):
                bump('fault:' + k, v)
        bump('io_ops', len(fs.history))
        bump('open_handles_left', fs.open_handles)
        log.add('end', len(viol), len(fs.history))
        sample = {'subgrids': [[s['name'], s['parent'], s['nrow'], s['ncol'], s['lat_inc'], s['long_inc'], s['s_lat'], s['e_long']]
                               for s in spec['subgrids']],
                  'field_classes': [[effective_class(p) for p in fl] for fl in spec['fields']],
                  'path': path, 'ops': trace['ops'][:5], 'n_ops': len(trace['ops']), 'faults': faults}
        return {'digest': log.digest(), 'violations': viol[:40], 'stats': stats,
                'sets': {'signatures': sorted(sigset)}, 'sig': short_hash(sorted(sigset), 20),
                'nontrivial': judged > 0, 'sample': sample, 'recorded': trace}

    @staticmethod
    def _topology(spec):
        sgs = spec['subgrids']
        nested = sum(1 for s in sgs if s['parent'] != 'NONE')
        depth2 = any(s['parent'] != 'NONE' and next((p for p in sgs if p['name'] == s['parent']), {'parent': 'NONE'})['parent'] != 'NONE'
                     for s in sgs)
        return '%dsub/%dnested%s' % (len(sgs), nested, '/deep' if depth2 else '')

    def _check_meta(self, grid, spec, path, V, keep=None, layout=None):
        """keep: number of bytes that survived in a torn file (None = whole file).
        Fields lying (partly) beyond the surviving prefix are not judged."""
        strict = keep is None
        h = dict(gs_type='SECONDS', version='NTv2.0', system_f='GDA94', system_t='GDA2020',
                 major_f=6378137.0, minor_f=6356752.314, major_t=6378137.0, minor_t=6356752.314)
        h.update(spec.get('header', {}))
        want = {'num_orec': 11, 'num_srec': 11, 'num_file': len(spec['subgrids'])}
        want.update(h)
        for k, v in want.items():
            if keep is not None and keep < 176:
                break
            got = getattr(grid, k, '<missing>')
            if got != v:
                V('metadata', 'header.' + k, {'written': v, 'read': repr(got)})
        if grid.file_path != path:
            V('metadata', 'header.file_path', {'written': path, 'read': repr(grid.file_path)})
        names = [s['name'] for s in spec['subgrids']]
        if strict and sorted(grid.subgrids) != sorted(names):
            V('metadata', 'subgrid-names', {'written': names, 'read': sorted(grid.subgrids)})
        for kk, s in enumerate(spec['subgrids']):
            g = grid.subgrids.get(s['name'])
            if g is None:
                continue
            if keep is not None and layout[kk] > keep:
                continue        # this sub-grid's header was cut by the tear
            b = _bbox(s)
            chk = [('sub_name', s['name'], 0), ('parent', s['parent'], 0), ('s_lat', b[0], 0.001), ('n_lat', b[1], 0.001),
                   ('e_long', b[2], 0.001), ('w_long', b[3], 0.001), ('lat_inc', s['lat_inc'], 1e-6),
                   ('long_inc', s['long_inc'], 1e-6), ('gs_count', s['nrow'] * s['ncol'], 0)]
            for k, v, tol in chk:
                got = getattr(g, k, '<missing>')
                if isinstance(v, str) or tol == 0:
                    bad = got != v
                else:
                    bad = not isinstance(got, float) or abs(got - v) > tol
                if bad:
                    V('metadata', 'subgrid.' + k, {'subgrid': s['name'], 'written': v, 'read': repr(got)})
            for k, lit in (('created', s.get('created')), ('updated', s.get('updated'))):
                if lit:
                    got = getattr(g, k, None)
                    if not isinstance(got, str) or got.replace('/', '') != lit:
                        V('metadata', 'subgrid.' + k, {'subgrid': s['name'], 'written': lit, 'read': repr(got)})

    def is_sut_file(self, fn):
        return fn.startswith(self.pkg_dir)

    def hash_order_sensitive(self, trace):
        # interpolate_ntv2 iterates a set() of the names of the sub-grids containing the point: the number of
        # lines it executes - hence where a pre-emption point falls - depends on the string hash seed
        return any(o.get('kind') == 'concurrent' for o in trace.get('ops', []))

    def _call(self, op, grid):
        lat, lon = op['lat'], op['lon']
        if op.get('num') == 'np':
            import numpy as np
            lat, lon = np.float64(lat), np.float64(lon)        # coordinates taken from a caller's numpy table
        form = op.get('form')
        if op['kind'] == 'tf':
            if op.get('default_args') and op['method'] == 'bicubic' and op['fwd']:
                return self.tf.ntv2_2d(grid, lat, lon)
            if form == 'kw':
                return self.tf.ntv2_2d(ntv2_grid=grid, lat=lat, lon=lon, method=op['method'], forward_tf=op['fwd'])
            if form == 'int':
                return self.tf.ntv2_2d(grid, lat, lon, 1 if op['fwd'] else 0, op['method'])
            return self.tf.ntv2_2d(grid, lat, lon, op['fwd'], op['method'])
        if form == 'kw':
            return self.nr.interpolate_ntv2(grid_object=grid, lat=lat, lon=lon, method=op['method'])
        if form == 'int' and op['method'] == 'bicubic':
            return self.nr.interpolate_ntv2(grid, lat, lon)
        return self.nr.interpolate_ntv2(grid, lat, lon, method=op['method'])

    def _op_length(self, op, grid):
        """line events of one call made alone, measured in a forked child (nothing is warmed up here)"""
        import os
        import sys
        rd, wr = os.pipe()
        pid = os.fork()
        if pid == 0:
            code = 0
            try:
                os.close(rd)
                n = [0]
                is_sut = self.is_sut_file

                def g(frame, event, arg):
                    return l if is_sut(frame.f_code.co_filename) else None

                def l(frame, event, arg):
                    if event == 'line':
                        n[0] += 1
                    return l
                sys.settrace(g)
                try:
                    self._call(op, grid)
                except Exception:
                    pass
                sys.settrace(None)
                os.write(wr, b'%d' % n[0])
            except BaseException:
                code = 1
            os._exit(code)
        os.close(wr)
        data = b''
        while True:
            chunk = os.read(rd, 64)
            if not chunk:
                break
            data += chunk
        os.close(rd)
        os.waitpid(pid, 0)
        try:
            return int(data)
        except ValueError:
            return 0

    def _concurrent(self, op, grid, model, fs, path, apath, data, layout, spec, arm, V, bump, log, sigset, topo, fclasses):
        """2-4 callers query the same grid object at the same time (baton threads, seeded scheduler, pre-emption
        at every line of ntv2reader.py / transform.py); each answer is judged like a lone caller's."""
        import random
        from detsim.sched import Sched, draw_decider, Replay, SimCancelled, StepBudgetExceeded
        subs = op['subs']
        T = len(subs)
        r = random.Random(op['seed'])
        if op.get('mode') == 'preempt':
            L = self._op_length(subs[0], grid)
            pnt = 1 + int(op['frac'] * max(L, 1))
            decider = Replay([[0, pnt, 1]] + ([[1, pnt, 0]] if op.get('diag') else []))
            bump('race_sweep_runs')
        else:
            decider = draw_decider(r, T, horizon=1500)
        sched = Sched(T, decider, log, self.is_sut_file, max_steps=2000000)
        out = [None] * T

        def body(t):
            def run(tid):
                sched.begin_op(tid, t)
                try:
                    out[t] = (self._call(subs[t], grid), 'ok')
                except (SimCancelled, StepBudgetExceeded):
                    raise
                except ValueError as e:
                    out[t] = (e, 'ValueError' if subs[t]['kind'] == 'tf' else 'raised')
                except Exception as e:
                    out[t] = (e, 'raised')
                finally:
                    sched.end_op(tid)
            return run
        sched.run([body(t) for t in range(T)])
        bump('concurrent_batches')
        bump('context_switches', sched.nswitch)
        judged = 0
        for t, sub in enumerate(subs):
            pre = out[t] if out[t] is not None else (RuntimeError('no result'), 'raised')
            judged += self._do_op(sub, grid, model, fs, path, apath, data, layout, spec, False, False, arm,
                                  lambda o, site, d: V(o, 'concurrent/' + site, d), bump, log, sigset, topo, fclasses, pre=pre)
        return judged

    def _do_op(self, op, grid, model, fs, path, apath, data, layout, spec, fault_run, torn, arm, V, bump, log,
               sigset, topo, fclasses, pre=None):
        nr, tf = self.nr, self.tf
        if op['kind'] == 'concurrent':
            return self._concurrent(op, grid, model, fs, path, apath, data, layout, spec, arm, V, bump, log, sigset, topo, fclasses)
        lat, lon, method = op['lat'], op['lon'], op['method']
        loc = model.locate(lat, lon)
        pcls = model.posclass(loc)
        site = '%s/%s' % (method, pcls.split('/')[0] if pcls.startswith('ring') else pcls)
        fkind = 'none'
        if fault_run:
            fkind = 'torn' if torn else 'eio'
        sigset.add('%s|%s|%s|%s|%s' % (op['kind'], site, topo, ','.join(fclasses), fkind if fault_run else op.get('rot', '-')))
        mark = len(fs.history)
        arm(op['id'])
        judged = 0
        if loc is not None:
            if loc['n_inside'] > 1:
                bump('probe:overlap_resolved_by_spacing')
            if loc['k'] == len(spec['subgrids']) - 1:
                bump('probe:query_in_last_subgrid_of_file')
            if loc['k'] > 0:
                bump('probe:query_in_non_first_subgrid')
            if method == 'bicubic' and pcls.startswith('ring'):
                bump('probe:stencil_would_leave_grid')
        # ------------------------------------------------------------------ tf
        if op['kind'] == 'tf':
            if pre is not None:
                res, status = pre
            else:
                try:
                    res = self._call(op, grid)
                    status = 'ok'
                except ValueError as e:
                    res, status = e, 'ValueError'
                except Exception as e:
                    res, status = e, 'raised'
            fs.eio_plan = {}
            log.add('tf', op['id'], status, repr(res) if status == 'ok' else type(res).__name__)
            if fault_run and (status == 'raised' or (status != 'ok' and loc is not None)):
                bump('fault_run_op_raised')     # narrow relaxation: under EIO / torn file the call may raise
                return 0
            if loc is None:
                if status != 'ValueError':
                    V('outside-must-raise', 'ntv2_2d/outside', {'lat': lat, 'lon': lon, 'got': repr(res)[:200]})
                else:
                    bump('outside_raised_ok')
                return 1
            if status != 'ok':
                V('raised-inside', 'ntv2_2d/' + site, {'lat': lat, 'lon': lon, 'exc': type(res).__name__, 'msg': str(res)[:200],
                                                        'loc': self._locinfo(loc, spec)})
                return 1
            exp = model.expected(loc, method)
            sgn = 1.0 if op['fwd'] else -1.0
            for idx, (nm, v, tol) in enumerate(exp[:2]):
                if nm is None:
                    continue
                want = (lat + sgn * v / 3600) if idx == 0 else (lon - sgn * v / 3600)
                got = res[idx]
                if not isinstance(got, float) or abs(got - want) > tol / 3600 + 1e-12:
                    V('tf-sign-and-units', 'ntv2_2d/%s/%s' % ('forward' if op['fwd'] else 'reverse', site),
                      {'lat': lat, 'lon': lon, 'component': 'lat' if idx == 0 else 'lon', 'shift_arcsec': v, 'want': want, 'got': repr(got),
                       'loc': self._locinfo(loc, spec)})
            return 1
        # ------------------------------------------------------------------ query
        if pre is not None:
            res, status = pre
        else:
            try:
                res = self._call(op, grid)
                status = 'ok'
            except Exception as e:
                res, status = e, 'raised'
        fs.eio_plan = {}
        log.add('q', op['id'], status, repr(res) if status == 'ok' else type(res).__name__)
        reads = fs.reads_of(apath, mark) if pre is None else []     # concurrent callers: the I/O history is interleaved
        if fault_run and status != 'ok':
            bump('fault_run_op_raised')
            return 0
        if loc is None:
            if status != 'ok' or tuple(res) != (None, None, None, None):
                V('outside-must-return-none', 'interpolate/outside', {'lat': lat, 'lon': lon, 'got': repr(res)[:200]})
            else:
                bump('outside_none_ok')
            if op.get('cls') == 'just-outside':
                bump('probe:just_outside')
            return 1
        # I/O history -> which stored bytes were fetched
        foreign = {}
        adm = model.admissible(loc, method)
        for off, n in reads:
            kind, what = classify_offset(off, layout, spec, len(data))
            if kind == 'node':
                if what not in adm:
                    foreign[what] = 'node'
            else:
                foreign[(kind, what, off)] = kind
        if any(v != 'node' or k[0] != loc['k'] for k, v in foreign.items()):
            bump('probe:read_crossed_subgrid_boundary')
        if any(kind == 'seek' and n < 0 for (_, pth, kind, _, n) in fs.history[mark:]):
            bump('probe:negative_relative_seek')
        if status != 'ok':
            V('raised-inside', site, {'lat': lat, 'lon': lon, 'exc': type(res).__name__, 'msg': str(res)[:200],
                                      'loc': self._locinfo(loc, spec), 'foreign_reads': self._fdesc(foreign)})
            return 1
        if not isinstance(res, tuple) or len(res) != 4 or any(v is None for v in res):
            V('inside-must-return-values', site, {'lat': lat, 'lon': lon, 'got': repr(res)[:200], 'loc': self._locinfo(loc, spec)})
            return 1
        exp = model.expected(loc, method)
        for idx, (nm, v, tol) in enumerate(exp):
            if nm is None:
                bump('fields_without_expectation')
                continue
            got = res[idx]
            bump('fields_compared')
            if not isinstance(got, (float, int)) or not (abs(got - v) <= tol):
                d = {'lat': lat, 'lon': lon, 'field': idx, 'want': v, 'got': repr(got), 'tol': tol, 'loc': self._locinfo(loc, spec),
                     'foreign_reads': self._fdesc(foreign)}
                # diagnosis: does it match another sub-grid's field?
                for k2 in loc['inside']:
                    if k2 != loc['k']:
                        d['note'] = 'position is also inside coarser sub-grid %s' % spec['subgrids'][k2]['name']
                V('model-' + nm, site, d)
        if op.get('cls') == 'ulp-inside':
            bump('probe:ulp_inside_boundary')
        if op.get('cls') == 'just-inside':
            bump('probe:just_inside')
        elif op.get('cls') == 'just-outside':
            bump('probe:just_outside')     # just outside one sub-grid but inside another (parent / neighbour)
        # ---- corruption faults (fault-free configuration only) -----------------------
        rot = op.get('rot', 'none')
        if fault_run or rot == 'none':
            return 1
        if rot == 'relevant':
            # sensitivity probe: corrupting one of the 4 enclosing nodes must change an interior answer
            k, row, col = loc['k'], loc['row'], loc['col']
            keep_all = set((kk, r, c) for kk, sg in enumerate(spec['subgrids']) for r in range(sg['nrow']) for c in range(sg['ncol']))
            keep_all.discard((k, row, col))
            bdata, _, _ = corrupt_nodes(data, layout, spec, keep_all)
            fs.put(path, bdata)
            try:
                r2 = self._call(op, grid)
            except Exception:
                r2 = None
            fs.put(path, data)
            if r2 != res and loc['x'] < 0.99 and loc['y'] < 0.99:
                bump('probe:relevant_corruption_changes_answer')
            elif loc['x'] < 0.99 and loc['y'] < 0.99:
                bump('relevant_corruption_did_not_change_answer')
            return 1
        bdata, nchanged, bits = corrupt_nodes(data, layout, spec, adm)
        bump('fault:corrupt_record', nchanged)
        bump('corrupt_bits_flipped', bits)
        if any(v == 'node' for v in foreign.values()):
            bump('probe:foreign_bytes_read_were_corrupted')
        bump('probe:foreign_bytes_read_were_corrupted', 0)
        try:
            if rot == 'B':
                pb = path + '.B'
                fs.put(pb, bdata)
                g2 = nr.read_ntv2_file(pb)
                r2 = self._call(op, g2)
                fs.remove(pb)
            else:
                fs.put(path, bdata)
                try:
                    r2 = self._call(op, grid)
                finally:
                    fs.put(path, data)
            st2 = 'ok'
        except Exception as e:
            r2, st2 = e, 'raised'
            fs.put(path, data)
        log.add('rot', op['id'], rot, st2, repr(r2) if st2 == 'ok' else type(r2).__name__)
        bump('corruption_trials')
        same = st2 == 'ok' and all(self._same_float(a, b) for a, b in zip(res, r2))
        if not same:
            V('corruption-invariance', site,
              {'lat': lat, 'lon': lon, 'mode': rot, 'clean': repr(res), 'after_corrupting_foreign_nodes': repr(r2)[:200],
               'loc': self._locinfo(loc, spec), 'foreign_reads': self._fdesc(foreign),
               'explain': 'every node record outside the admissible neighbourhood (and every other sub-grid) was altered; the answer changed, '
                          'so it depends on nodes the property excludes'})
        return 1

    @staticmethod
    def _same_float(a, b):
        if a is None or b is None:
            return a is b
        return struct.pack('<d', float(a)) == struct.pack('<d', float(b))

    @staticmethod
    def _locinfo(loc, spec):
        sg = spec['subgrids'][loc['k']]
        return {'subgrid': sg['name'], 'index_in_file': loc['k'], 'row': loc['row'], 'col': loc['col'],
                'nrow': sg['nrow'], 'ncol': sg['ncol'], 'x': loc['x'], 'y': loc['y'], 'inside_subgrids': loc['n_inside']}

    @staticmethod
    def _fdesc(foreign):
        out = []
        for k, v in list(foreign.items())[:8]:
            out.append('%s %s' % (v, k if v == 'node' else k[1:]))
        return out

    # ---------------------------------------------------------------- shrinking
    def shrink_fields(self, trace):
        return ['faults', 'ops']

    def simplify(self, trace):
        spec = trace['spec']
        # make fields simpler
        for cls in ('const', 'linear'):
            t2 = dict(trace)
            s2 = dict(spec)
            s2['fields'] = [[{'cls': cls, 'k': 6, 'terms': [[0, 0, 64 * (fi + 1)]] + ([[1, 0, 32], [0, 1, -16]] if cls == 'linear' else [])}
                             for fi in range(4)] for _ in spec['fields']]
            t2['spec'] = s2
            yield t2
        if trace['path'] != 'g.gsb':
            t2 = dict(trace)
            t2['path'] = 'g.gsb'
            yield t2

    # ----------------------------------------------------------------- canaries
    def canaries(self):
        """The oracle must fire on a reader that is wrong in a known way.  The
        canary swaps geodepy.ntv2reader.read_node for one that reads the record
        *after* the requested one (a SimFS reader that reads one record too far)."""
        spec = {'header': {}, 'subgrids': [{'name': 'ONLY', 'parent': 'NONE', 's_lat': -136800.0, 'e_long': -525600.0,
                                            'lat_inc': 300.0, 'long_inc': 300.0, 'nrow': 8, 'ncol': 8,
                                            'created': '01012020', 'updated': '01012020'}],
                'fields': [[{'cls': 'linear', 'k': 6, 'terms': [[0, 0, 64], [1, 0, 32], [0, 1, -16]]}] * 4]}
        sg = spec['subgrids'][0]
        lat = (sg['s_lat'] + 3.25 * 300) / 3600
        lon = -(sg['e_long'] + 4.5 * 300) / 3600
        base = {'property': 'C17', 'spec': spec, 'path': 'c.gsb', 'faults': []}
        t1 = dict(base, ops=[{'id': 0, 'kind': 'q', 'lat': lat, 'lon': lon, 'method': 'bilinear', 'rot': 'B'}], canary='read_one_too_far')
        t2 = dict(base, ops=[{'id': 0, 'kind': 'tf', 'lat': lat, 'lon': lon, 'method': 'bilinear', 'fwd': True}], canary='tf_adds_lon')
        t3 = dict(base, ops=[{'id': 0, 'kind': 'q', 'lat': lat, 'lon': lon, 'method': 'bicubic', 'rot': 'inplace'}], canary='extra_far_read')
        return [('reader that reads one record too far', t1, ['model-bilinear-blend']),
                ('2-D transformation that adds the longitude shift', t2, ['tf-sign-and-units']),
                ('interpolator that also depends on a far-away node', t3, ['corruption-invariance'])]


class C17WithCanary(C17):
    def execute(self, trace):
        can = trace.get('canary')
        if not can:
            return C17.execute(self, trace)
        nr, tf = self.nr, self.tf
        saved = (nr.read_node, tf.interpolate_ntv2, nr.interpolate_ntv2)
        try:
            if can == 'read_one_too_far':
                orig = nr.read_node

                def bad_read_node(f):
                    f.seek(16, 1)
                    v = orig(f)
                    f.seek(-16, 1)
                    return v
                nr.read_node = bad_read_node
            elif can == 'tf_adds_lon':
                orig_i = tf.interpolate_ntv2

                def flipped(grid, lat, lon, method='bicubic'):
                    r = orig_i(grid, lat, lon, method=method)
                    return (r[0], -r[1], r[2], r[3]) if r[0] is not None else r
                tf.interpolate_ntv2 = flipped
            elif can == 'extra_far_read':
                orig_i = nr.interpolate_ntv2

                def leaky(grid, lat, lon, method='bicubic'):
                    r = orig_i(grid, lat, lon, method=method)
                    with nr.open(grid.file_path, 'rb') as f:
                        f.seek(176 + 176, 0)          # node (0,0) of the first sub-grid
                        far = nr.read_node(f)
                    return (r[0] + 1e-9 * far[0], r[1], r[2], r[3])
                nr.interpolate_ntv2 = leaky
            t = dict(trace)
            t.pop('canary')
            return C17.execute(self, t)
        finally:
            nr.read_node, tf.interpolate_ntv2, nr.interpolate_ntv2 = saved


CHECK = C17WithCanary()
