"""C18 - editing a SINEX solution keeps exactly the remaining parameters and
covariance, independently of the wall-clock time at which it runs.

Simulated components: the wall clock (geodepy.gnss.datetime rebound to the
simulator's clock: set / advance / advance-on-read, so that the reads inside one
edit can straddle midnight or new year), the file system and cwd under
geodepy.gnss (module-level `open` rebound to SimFS), and a storage fault plan
(ENOSPC, EIO, crash inside a write).  The history of operations (generate input,
set clock, edit, chain the output into the next input, read back) is generated
and shrunk as one list; oracles are an independent strict SINEX parser and an
in-memory solution model.
"""
import datetime as _dt

from detsim import kernel
from detsim.kernel import EventLog, short_hash
from detsim.simfs import SimFS, SimCrash
from detsim.simclock import SimClock, install_clock_seam, restore_seam
from checks.common import CheckBase
from checks import c18_sinex as sx

SPECIAL_TIMES = [
    (0, 0, 0, 0), (0, 0, 0, 400000), (0, 16, 39, 0), (0, 16, 40, 0), (2, 46, 39, 0), (2, 46, 39, 600000), (2, 46, 40, 0),
    (12, 0, 0, 0), (23, 59, 59, 0), (23, 59, 59, 600000), (0, 0, 9, 0), (0, 1, 39, 0), (0, 1, 40, 0),
]
SPECIAL_DATES = [(2024, 12, 31), (2025, 1, 1), (2024, 2, 29), (2020, 1, 1), (2019, 1, 9), (2023, 4, 9), (2023, 4, 10),
                 (1999, 12, 31), (2000, 1, 1), (2026, 10, 1), (2009, 7, 4)]


def clock_class(t):
    sec = t.hour * 3600 + t.minute * 60 + t.second
    if sec == 0:
        c = 'midnight'
    elif sec < 10:
        c = 's<10'
    elif sec < 100:
        c = 's<100'
    elif sec < 1000:
        c = 's<1000'
    elif sec < 10000:
        c = 's<10000'
    elif sec >= 86399:
        c = 'last-second'
    else:
        c = 'day'
    doy = t.timetuple().tm_yday
    d = 'doy<10' if doy < 10 else ('doy<100' if doy < 100 else ('doy366' if doy == 366 else 'doy'))
    return c + '/' + d


def gen_time(rng):
    if rng.random() < 0.6:
        h, m, s, us = rng.choice(SPECIAL_TIMES)
    else:
        h, m, s, us = rng.randrange(24), rng.randrange(60), rng.randrange(60), rng.choice([0, 0, 499999, 500000, 999999])
    if rng.random() < 0.5:
        y, mo, d = rng.choice(SPECIAL_DATES)
    else:
        y, mo, d = rng.randrange(1995, 2035), rng.randrange(1, 13), rng.randrange(1, 29)
    return _dt.datetime(y, mo, d, h, m, s, us).isoformat()


class C18(CheckBase):
    id = 'C18'
    title = 'Editing a SINEX solution keeps exactly the remaining parameters and covariance'
    quick_runs = 2400
    thorough_runs = 60000 + 2 * (3 * 256 + 6 * 32) + 3 * 6 * 128
    quick_budget_s = 60
    thorough_budget_s = 1200
    run_timeout = 120
    required_probes = ['seconds_field_lt_10000', 'midnight_exact', 'year_rollover_between_reads', 'midnight_between_reads',
                       'creation_time_equals_data_start', 'old_count_digits_occur_elsewhere_in_header',
                       'header_contains_another_V', 'zero_line_width_1', 'zero_line_width_2', 'zero_line_width_3',
                       'chain_depth_ge_2', 'multi_solution_station_removed', 'input_omits_zero_lines',
                       'site_latitude_minus_zero_degrees', 'input_rewritten_in_place_same_size_same_mtime',
                       'output_moved_over_its_input']
    components = {
        'real': ['geodepy.gnss: set_creation_time, read_sinex_header_line, read_sinex_comments, the *_block readers, '
                 'read_sinex_estimate / read_sinex_matrix / read_sinex_sites, remove_stns_sinex, remove_velocity_sinex, '
                 'remove_matrixzeros_sinex', 'geodepy.angles.DMSAngle', 'numpy'],
        'simulated': ['wall clock (geodepy.gnss.datetime -> SimClock: set / advance / advance-on-read)',
                      'file system and cwd (geodepy.gnss.open, and behind it builtins/io open and the os path functions, -> SimFS: '
                      'content, size, inode, modification time) with ENOSPC / read-error (EIO, EINTR, ETIMEDOUT, EAGAIN) / crash-inside-write faults',
                      'caller threads of the concurrent reader batches (baton threads, seeded scheduler, pre-emption at every line of gnss.py)'],
        'stub': ['pandas (import-only stub in /verif/stubs; none of the exercised functions touches it)',
                 'the SINEX producer is a harness component (checks/c18_sinex.py)'],
    }
    assumptions = [
        'well-formedness (every block closed on its own line, fixed-column header, %ENDSNX trailer on its own line) is demanded of all three editing functions, as all of them write output.snx',
        'text fields compare as stripped strings, values and sigmas as floats, covariance entries by float equality (values survive float -> %21.14e exactly); omitted matrix elements count as zero (SINEX rule)',
        'not judged (observations only): whether the creation field equals the simulated clock or stays <= 86399, the data start/end epochs of the header, exponent case, trailing blanks, the inserted comment line, SITE/ID and SOLUTION/EPOCHS content',
        'all-zero matrix lines must be removed only when written in the generator\'s own %21.14e format',
    ]
    rule = ('run = generated SINEX input(s) on the simulated disk + history of 3..25 operations (clock set/advance/advance-on-read, '
            'remove stations / velocities / zero lines, chain output->input (new name or over the input), input re-generated in place, '
            'read back by one caller or by 2-4 concurrent callers, storage faults), plus three sweeps: removal subsets, special clock '
            'values, reader races at every 1/48 (thorough 1/256) of a cold first call; non-trivial = at least one edit or '
            'reader call was judged; distinct = set of (operation, layout class, subset class, clock class, fault kind) tuples, hashed')
    simulated_time_note = 'see coverage.simulated_clock: distinct simulated seconds-of-day and days visited, span of simulated dates'

    def post_aggregate(self, agg):
        days = sorted(agg.sets.get('clock_days', []))
        sod = agg.sets.get('clock_seconds_of_day', set())
        return {'simulated_clock': {
            'distinct_seconds_of_day_read': len(sod), 'distinct_days_read': len(days),
            'first_day': days[0] if days else None, 'last_day': days[-1] if days else None,
            'clock_classes_visited': sorted(agg.sets.get('clock_classes', [])),
            'clock_reads': agg.stats.get('clock_reads', 0)}}

    def setup_process(self):
        import geodepy.gnss as gnss
        self.gnss = gnss
        self.real_datetime = gnss.datetime
        self.gnss_file = gnss.__file__
        import os
        import sys
        self.pkg_dir = os.path.dirname(os.path.abspath(gnss.__file__)) + os.sep
        from detsim.sched import wrap_module_locks
        # a lock the readers may own (in gnss.py or in a helper module of the package) must never block the baton holder
        wrap_module_locks([m for n, m in sorted(sys.modules.items())
                           if m is not None and (n == 'geodepy' or n.startswith('geodepy.')) and not n.startswith('geodepy.tests')])

    def is_sut_file(self, fn):
        return fn.startswith(self.pkg_dir)

    # ---------------------------------------------------------------- generate
    N_SUBSET_SWEEP = 20
    N_TIME_SWEEP = len(SPECIAL_TIMES) * len(SPECIAL_DATES)

    def _sweep_trace(self, rng, i):
        """Deterministic corners first (same in both tiers):
        runs 0..19   every subset of the stations of a file with 1..5 stations (x velocities x L/U) as removal set;
        runs 20..162 every special time of day x every special date, all three editors."""
        if i < self.N_SUBSET_SWEEP:
            nst = i % 5 + 1
            vel = (i // 5) % 2 == 1
            tri = 'LU'[(i // 10) % 2]
            spec = sx.gen_spec(rng)
            while len(spec['stations']) < nst or len(set(s['code'] for s in spec['stations'])) < nst:
                spec = sx.gen_spec(rng)
            codes = []
            st = []
            for x in spec['stations']:
                if x['code'] not in codes and len(codes) < nst:
                    codes.append(x['code'])
                    x = dict(x, soln='1')
                    x['est'], x['sig'] = (x['est'] + x['est'])[:6 if vel else 3], (x['sig'] + x['sig'])[:6 if vel else 3]
                    st.append(x)
            spec.update(stations=st, velocities=vel, triangle=tri)
            ops = [{'kind': 'gen', 'spec': spec, 'name': 'sweep.snx'}, {'kind': 'clock_set', 't': gen_time(rng)}]
            for mask in range(0, 2 ** nst - 1):          # all subsets except 'remove everything'
                ops.append({'kind': 'remove_stns', 'subset': 'sweep', 'codes': [c for k, c in enumerate(codes) if mask >> k & 1],
                            'pick': 0, 't2': None})
            return ops
        j = i - self.N_SUBSET_SWEEP
        h, m, sec, us = SPECIAL_TIMES[j % len(SPECIAL_TIMES)]
        y, mo, d = SPECIAL_DATES[j // len(SPECIAL_TIMES)]
        spec = sx.gen_spec(rng)
        while not spec['velocities'] or len(spec['stations']) > 4:
            spec = sx.gen_spec(rng)
        t = _dt.datetime(y, mo, d, h, m, sec, us).isoformat()
        ops = [{'kind': 'gen', 'spec': spec, 'name': 'sweep.snx'}, {'kind': 'clock_set', 't': t},
               {'kind': 'advance_on_read', 'policy': [rng.choice([0, 0.6, 1])]},
               {'kind': 'remove_stns', 'subset': 'one', 'pick': rng.getrandbits(32), 't2': None},
               {'kind': 'clock_set', 't': t}, {'kind': 'remove_velocity', 't2': None},
               {'kind': 'clock_set', 't': t}, {'kind': 'remove_matrixzeros', 't2': None}]
        return ops

    # reader race sweep: caller 0 is stopped `frac` of the way through its call (length measured in a forked
    # child, so that nothing is warmed up), caller 1 then runs to completion (or, `diag`, to the same point
    # of its own call first).  The readers are the first thing that runs in the process: first-use paths.
    READER_KINDS = ['read_estimate', 'read_matrix', 'read_sites']
    RACE_POINTS_QUICK = 48
    RACE_POINTS_THOROUGH = 256
    N_RACE_SWEEP = 3 * RACE_POINTS_QUICK + 6 * 4          # same-kind pairs densely, mixed pairs sparsely
    N_RANDOM_THOROUGH = 60000
    N_RACE_THOROUGH = 2 * (3 * RACE_POINTS_THOROUGH + 6 * 32)

    def _race_trace(self, rng, j, points, mixed_points):
        K = self.READER_KINDS
        if j < 3 * points:
            a = b = K[j // points]
            frac = (j % points + 0.5) / points
        else:
            jj = j - 3 * points
            pairs = [(x, y) for x in K for y in K if x != y]
            a, b = pairs[(jj // mixed_points) % len(pairs)]
            frac = (jj % mixed_points + rng.random()) / mixed_points
        spec = sx.gen_spec(rng)
        while len(spec['stations']) > 2:
            spec = sx.gen_spec(rng)
        same_file = rng.random() < 0.7
        spec['type_major'] = False
        ops = [{'kind': 'gen', 'spec': spec, 'name': 'race.snx'}]
        if not same_file:
            ops.append({'kind': 'gen', 'spec': dict(sx.gen_spec(rng), type_major=False), 'name': 'race2.snx'})
        ops.append({'kind': 'concurrent_reads', 'threads': 2, 'seed': rng.getrandbits(32), 'mode': 'preempt',
                    'frac': round(frac, 5), 'diag': rng.random() < 0.3, 'jobs': [[a, 'race.snx'], [b, 'race.snx' if same_file else 'race2.snx']]})
        ops.append({'kind': 'concurrent_reads', 'threads': 2, 'seed': rng.getrandbits(32), 'mode': 'preempt',
                    'frac': round(rng.random(), 5), 'diag': False, 'jobs': [[b, 'race.snx'], [a, 'race.snx']]})
        ops += [{'kind': 'read_estimate'}, {'kind': 'read_matrix'}, {'kind': 'read_sites'}]
        return ops

    # storage fault sweep: every editor x every fault kind at each 1/24 (thorough 1/128) of what the call reads / writes
    FAULT_KINDS = [('eio', 'EIO'), ('eio', 'EINTR'), ('eio', 'ETIMEDOUT'), ('eio', 'EAGAIN'), ('enospc', None), ('crash', None)]
    FAULT_POINTS_QUICK = 24
    FAULT_POINTS_THOROUGH = 128
    N_FAULT_SWEEP = 3 * len(FAULT_KINDS) * FAULT_POINTS_QUICK

    def _fault_trace(self, rng, j, points):
        editor = ['remove_stns', 'remove_velocity', 'remove_matrixzeros'][j % 3]
        fk, en = self.FAULT_KINDS[(j // 3) % len(self.FAULT_KINDS)]
        frac = ((j // (3 * len(self.FAULT_KINDS))) % points + rng.random()) / points
        spec = sx.gen_spec(rng)
        while len(spec['stations']) > 3 or (editor == 'remove_velocity' and not spec['velocities']) or \
                (editor == 'remove_stns' and len(set(s['code'] for s in spec['stations'])) < 2):
            spec = sx.gen_spec(rng)
        ops = [{'kind': 'gen', 'spec': spec, 'name': 'fault.snx'}, {'kind': 'clock_set', 't': gen_time(rng)}]
        e = {'kind': editor, 't2': None}
        if editor == 'remove_stns':
            e.update(subset=rng.choice(['one', 'first', 'last']), pick=rng.getrandbits(32))
        ops.append(e)
        # afterwards the same edit without a fault, and the readers: nothing of the failed call may linger
        ops += [dict(e), {'kind': 'read_estimate'}, {'kind': 'read_matrix'}]
        f = {'kind': fk, 'at_op': 2, 'frac': round(frac, 5)}
        if en:
            f['errno'] = en
        if fk == 'crash':
            f['keep'] = rng.choice([None, 0, 1, 7])
        return ops, [f]

    def generate(self, rng, i, tier):
        n_sw0 = self.N_SUBSET_SWEEP + self.N_TIME_SWEEP + self.N_RACE_SWEEP
        ft = None
        if n_sw0 <= i < n_sw0 + self.N_FAULT_SWEEP:
            ft = self._fault_trace(rng, i - n_sw0, self.FAULT_POINTS_QUICK)
        elif tier == 'thorough' and i >= self.N_RANDOM_THOROUGH + self.N_RACE_THOROUGH:
            ft = self._fault_trace(rng, i - self.N_RANDOM_THOROUGH - self.N_RACE_THOROUGH, self.FAULT_POINTS_THOROUGH)
        if ft is not None:
            for j, o in enumerate(ft[0]):
                o['id'] = j
            return {'property': 'C18', 'ops': ft[0], 'faults': ft[1], 'sweep': True}
        n_sw = self.N_SUBSET_SWEEP + self.N_TIME_SWEEP
        if i < n_sw:
            ops = self._sweep_trace(rng, i)
            for j, o in enumerate(ops):
                o['id'] = j
            return {'property': 'C18', 'ops': ops, 'faults': [], 'sweep': True}
        race = None
        if i < n_sw + self.N_RACE_SWEEP:
            race = self._race_trace(rng, i - n_sw, self.RACE_POINTS_QUICK, 4)
        elif tier == 'thorough' and self.N_RANDOM_THOROUGH <= i < self.N_RANDOM_THOROUGH + self.N_RACE_THOROUGH:
            race = self._race_trace(rng, (i - self.N_RANDOM_THOROUGH) % (3 * self.RACE_POINTS_THOROUGH + 6 * 32),
                                    self.RACE_POINTS_THOROUGH, 32)
        if race is not None:
            for j, o in enumerate(race):
                o['id'] = j
            return {'property': 'C18', 'ops': race, 'faults': [], 'sweep': True}
        ops = []
        spec = sx.gen_spec(rng)
        ops.append({'kind': 'gen', 'spec': spec, 'name': rng.choice(['in.snx', '/data/AUS0OPSSNX.snx', 'sub/dir/x.SNX', 'a b.snx'])})
        ops.append({'kind': 'clock_set', 't': gen_time(rng)})
        fault_run = rng.random() < 0.2
        n = rng.choice([3, 4, 6, 8, 12, 18, 25])
        has_vel = spec['velocities']
        for _ in range(n):
            k = rng.random()
            if k < 0.12:
                ops.append({'kind': 'clock_set', 't': gen_time(rng)})
            elif k < 0.17:
                ops.append({'kind': 'clock_advance', 'dt': rng.choice([1, 59, 60, 3600, 86399, 86400, 0.4, 0.6])})
            elif k < 0.27:
                pol = rng.choice([[0], [1e-6], [1], [0.6], [3600], [86400], [1, 0], [0, 1], [43200]])
                ops.append({'kind': 'advance_on_read', 'policy': pol})
            elif k < 0.5:
                ops.append({'kind': 'remove_stns', 'subset': rng.choice(['none', 'one', 'one', 'many', 'many', 'all-but-one', 'absent', 'first', 'last']),
                            'pick': rng.getrandbits(32), 't2': gen_time(rng)})
            elif k < 0.6:
                ops.append({'kind': 'remove_velocity', 't2': gen_time(rng)})
            elif k < 0.7:
                ops.append({'kind': 'remove_matrixzeros', 't2': gen_time(rng)})
            elif k < 0.77:
                # the edited file becomes the next input: under a new name, or moved over the input it came from
                ops.append({'kind': 'chain', 'name': 'chained%d.snx' % len(ops) if rng.random() < 0.7 else '='})
            elif k < 0.8:
                # the input is produced again in place (same path, same size; same time stamp if the clock stands)
                ops.append({'kind': 'regen', 'seed': rng.getrandbits(32), 'keep_mtime': rng.random() < 0.5})
            elif k < 0.86:
                ops.append({'kind': 'read_estimate'})
            elif k < 0.92:
                ops.append({'kind': 'read_matrix'})
            elif k < 0.97:
                ops.append({'kind': 'read_sites'})
            else:
                ops.append({'kind': 'concurrent_reads', 'threads': rng.choice([2, 2, 3, 4]), 'seed': rng.getrandbits(32)})
            if rng.random() < 0.06:
                spec2 = sx.gen_spec(rng)
                ops.append({'kind': 'gen', 'spec': spec2, 'name': 'in%d.snx' % len(ops)})
        faults = []
        if fault_run:
            edits = [j for j, o in enumerate(ops) if o['kind'].startswith('remove_')]
            for _ in range(rng.choice([1, 1, 2])):
                if not edits:
                    break
                j = rng.choice(edits)
                kind = rng.choice(['enospc', 'eio', 'crash'])
                f = {'kind': kind, 'at_op': j}
                if kind == 'enospc':
                    f['after_bytes'] = rng.choice([0, 10, 80, 500, 2000, 10000])
                elif kind == 'eio':
                    f['nth_read'] = rng.randrange(1, 400)
                    f['errno'] = rng.choice(['EIO', 'EIO', 'EINTR', 'ETIMEDOUT', 'EAGAIN'])   # persistent-looking and transient kinds
                else:
                    f['nth_write'] = rng.randrange(1, 200)
                    f['keep'] = rng.choice([None, 0, 1, 7])
                faults.append(f)
        for j, o in enumerate(ops):
            o['id'] = j
        return {'property': 'C18', 'ops': ops, 'faults': faults}

    # ----------------------------------------------------------------- execute
    def execute(self, trace):
        gnss = self.gnss
        log = EventLog()
        fs = SimFS(cwd='/sim/work')
        clock = SimClock()
        gnss.open = fs.open
        fs.now = lambda: (clock.t - _dt.datetime(1970, 1, 1)).total_seconds()    # time stamps: read without a clock-read event
        undo_global = fs.install_global_seam()
        # the seams cover geodepy.gnss and every helper module of the package it may delegate to
        import sys
        mods = [gnss] + [m for n, m in sorted(sys.modules.items())
                         if m is not None and m is not gnss and n.startswith('geodepy.') and not n.startswith('geodepy.tests')]
        saved_seams = []
        for m in mods:
            saved_seams.append((m, fs.install_os_seam(m)))
            saved_seams.append((m, install_clock_seam(m, clock)))
        if not any(sv for m, sv in saved_seams if m is gnss or sv) or not any(
                sv for (m, sv) in saved_seams[1::2]):
            raise kernel.HarnessError('clock seam not found: no geodepy module has a module-level reference to datetime / time')
        viol = []
        stats = {}
        sigset = set()
        clockset = {'sod': set(), 'days': set(), 'classes': set()}

        def bump(k, n=1):
            stats[k] = stats.get(k, 0) + n

        def V(oracle, site, detail):
            viol.append({'oracle': oracle, 'site': site, 'detail': detail})
            log.add('V', oracle, site)

        st = {'cur': None, 'model': None, 'spec': None, 'depth': 0, 'pending': None, 'omits_zero': False, 'judged': 0,
              'dirty': False}
        faults_at = {}
        for f in trace.get('faults', []):
            faults_at.setdefault(f['at_op'], []).append(f)
        try:
            for op in trace['ops']:
                if st['dirty']:
                    break
                self._do_op(op, st, fs, clock, faults_at.get(op.get('id'), []), V, bump, log, sigset, clockset)
        finally:
            gnss.open = open
            for m, sv in saved_seams:
                restore_seam(m, sv)
            undo_global()
        for t in clock.reads:
            clockset['sod'].add(t.hour * 3600 + t.minute * 60 + t.second)
            clockset['days'].add(t.date().isoformat())
            clockset['classes'].add(clock_class(t))
        bump('clock_reads', len(clock.reads))
        bump('io_ops', len(fs.history))
        bump('open_handles_left', fs.open_handles)
        for k, v in fs.fired.items():
            bump('fault:' + k, v)
        log.add('end', len(viol), len(clock.reads), len(fs.history))
        first = trace['ops'][0] if trace['ops'] else {}
        sample = {'ops': [self._brief(o) for o in trace['ops'][:10]], 'n_ops': len(trace['ops']), 'faults': trace.get('faults', []),
                  'clock_reads_excerpt': [t.isoformat() for t in clock.reads[:4]]}
        return {'digest': log.digest(), 'violations': viol[:40], 'stats': stats,
                'sets': {'signatures': sorted(sigset), 'clock_seconds_of_day': sorted(clockset['sod']),
                         'clock_days': sorted(clockset['days']), 'clock_classes': sorted(clockset['classes'])},
                'sig': short_hash(sorted(sigset), 20), 'nontrivial': st['judged'] > 0, 'sample': sample, 'recorded': trace}

    @staticmethod
    def _brief(o):
        if o['kind'] == 'gen':
            s = o['spec']
            return {'kind': 'gen', 'name': o['name'], 'stations': [x['code'] + ':' + x['soln'] for x in s['stations']],
                    'velocities': s['velocities'], 'triangle': s['triangle'], 'zero_frac': s['zero_frac'],
                    'header': sx.header_line(s, len(s['stations']) * (6 if s['velocities'] else 3), s['velocities'])}
        return o

    @staticmethod
    def _layout(model):
        n = len(model.stations)
        bucket = '1' if n == 1 else ('2-3' if n <= 3 else ('4-6' if n <= 6 else '7+'))
        multi = len(set(s['code'] for s in model.stations)) < n
        return '%s/%s/st%s%s' % ('vel' if model.velocities else 'pos', model.triangle, bucket, '/multisol' if multi else '')

    def _do_op(self, op, st, fs, clock, faults, V, bump, log, sigset, clockset):
        gnss = self.gnss
        kind = op['kind']
        if kind == 'gen':
            spec = op['spec']
            model = sx.Solution(spec)
            try:
                text = sx.write_sinex(spec, model)
            except Exception:
                return
            fs.put(op['name'], text.encode())
            st.update(cur=op['name'], model=model, spec=spec, depth=0, pending=None, omits_zero=False, gen_name=op['name'])
            st.setdefault('library', {})[op['name']] = model
            log.add('gen', op['name'], len(text))
            hdr = text.split('\n', 1)[0]
            if spec['created'] == spec['start']:
                bump('probe:creation_time_equals_data_start')
            cnt = hdr[60:65]
            if cnt in hdr[:60] or cnt in hdr[65:] or str(int(cnt)) in hdr[:60].replace(':', ' '):
                bump('probe:old_count_digits_occur_elsewhere_in_header')
            if 'V' in hdr[:68]:
                bump('probe:header_contains_another_V')
            return
        if kind == 'regen':
            if st.get('spec') is None or st.get('gen_name') is None:
                return
            spec = sx.perturb_spec(st['spec'], op['seed'])
            model = sx.Solution(spec)
            try:
                text = sx.write_sinex(spec, model)
            except Exception:
                return
            same_size = fs.exists(st['gen_name']) and len(fs.get(st['gen_name'])) == len(text.encode())
            old_stamp = fs.mtime.get(fs.abspath(st['gen_name']))
            same_stamp = old_stamp is not None and (op.get('keep_mtime') or old_stamp == fs.now())
            fs.put(st['gen_name'], text.encode(), in_place=True, mtime=old_stamp if op.get('keep_mtime') else None)
            st.update(cur=st['gen_name'], model=model, spec=spec, depth=0, pending=None, omits_zero=False)
            st.setdefault('library', {})[st['gen_name']] = model
            log.add('regen', st['gen_name'], len(text))
            bump('probe:input_rewritten_in_place')
            if same_size and same_stamp:
                bump('probe:input_rewritten_in_place_same_size_same_mtime')
            return
        if kind == 'clock_set':
            clock.set(_dt.datetime.fromisoformat(op['t']))
            log.add('clock_set', op['t'])
            return
        if kind == 'clock_advance':
            clock.advance(op['dt'])
            log.add('clock_adv', op['dt'])
            return
        if kind == 'advance_on_read':
            clock.set_policy(op['policy'])
            log.add('policy', op['policy'])
            return
        if st['cur'] is None:
            return
        model = st['model']
        if kind == 'chain':
            if st['pending'] is None or not fs.exists('output.snx'):
                return
            name = st['cur'] if op['name'] == '=' else op['name']
            if op['name'] == '=':
                bump('probe:output_moved_over_its_input')
            fs.rename('output.snx', name)
            st['cur'] = name
            st['model'] = st['pending'][0]
            st.setdefault('library', {})[name] = st['model']
            st['omits_zero'] = st['pending'][1]
            st['pending'] = None
            st['depth'] += 1
            if st['depth'] >= 2:
                bump('probe:chain_depth_ge_2')
            log.add('chain', name)
            return
        if kind.startswith('read_'):
            self._reader(kind, st, fs, V, bump, log, sigset)
            return
        if kind == 'concurrent_reads':
            self._concurrent_reads(op, st, fs, V, bump, log, sigset)
            return
        # ------------------------------------------------------------------ edits
        if kind == 'remove_velocity' and not model.velocities:
            bump('skipped_remove_velocity_on_position_only_file')
            return
        if kind == 'remove_stns':
            codes = self._subset(op, model)
            expected = model.remove_stations(set(codes))
            if not expected.stations:
                bump('skipped_remove_all_stations')
                return
            args = (st['cur'], list(codes))
            fn = gnss.remove_stns_sinex
            sub = op['subset']
            rem = set(codes)
            if any(s['code'] in rem for s in model.stations) and \
                    len([s for s in model.stations if s['code'] in rem]) > len(set(s['code'] for s in model.stations if s['code'] in rem)):
                bump('probe:multi_solution_station_removed')
        elif kind == 'remove_velocity':
            expected = model.remove_velocities()
            args, fn, sub = (st['cur'],), gnss.remove_velocity_sinex, '-'
        else:
            expected = model.copy()
            args, fn, sub = (st['cur'],), gnss.remove_matrixzeros_sinex, '-'
        if st['omits_zero']:
            bump('probe:input_omits_zero_lines')
        input_before = fs.get(st['cur'])
        tag = kind + ('/input-omits-zero-lines' if st['omits_zero'] and kind == 'remove_stns' else '')
        results = []
        times = [None] if faults else [None, op.get('t2')]
        for which, t2 in enumerate(times):
            if which == 1:
                if t2 is None:
                    continue
                clock.set(_dt.datetime.fromisoformat(t2))
            nreads0 = len(clock.reads)
            nopens0 = len(fs.opens)
            fs.clear_faults()
            fkind = 'none'
            if any('frac' in f for f in faults):
                # fault position given as a fraction of what this very call does: measured by a dry run in a
                # forked child (reads of the input, write calls, bytes written), nothing of it survives here
                size = self._edit_size(fn, args, fs, st['cur'])
                faults = [dict(f) for f in faults]
                for f in faults:
                    if 'frac' not in f:
                        continue
                    if f['kind'] == 'eio':
                        f['nth_read'] = 1 + int(f['frac'] * max(size[0] - 1, 0))
                    elif f['kind'] == 'crash':
                        f['nth_write'] = 1 + int(f['frac'] * max(size[1] - 1, 0))
                    else:
                        f['after_bytes'] = int(f['frac'] * size[2])
                bump('fault_sweep_runs')
            for f in faults:
                fkind = f['kind']
                if f['kind'] == 'enospc':
                    fs.enospc_plan[fs.abspath('output.snx')] = f['after_bytes']
                elif f['kind'] == 'eio':
                    import errno as _errno
                    fs.eio_errno = getattr(_errno, f.get('errno', 'EIO'))
                    base = fs.read_count.get(fs.abspath(st['cur']), 0)
                    fs.eio_plan[fs.abspath(st['cur'])] = {base + f['nth_read']}
                elif f['kind'] == 'crash':
                    fs.crash_at = fs.write_calls + f['nth_write']
                    fs.crash_keep = f.get('keep')
            fired0 = dict(fs.fired)
            status = 'ok'
            exc = None
            try:
                fn(*args)
            except SimCrash as e:
                status, exc = 'crash', e
            except SystemExit as e:
                status, exc = 'exit', e
            except Exception as e:
                status, exc = 'raised', e
            fs.clear_faults()
            fault_fired = fs.fired != fired0
            reads = clock.reads[nreads0:]
            # the seams must have been used: an edit that never opened the simulated input, or that
            # produced an output without reading the simulated clock, ran outside the simulation
            opened = [p for p, m in fs.opens[nopens0:]]
            deadlocked = isinstance(exc, RuntimeError) and 'dead-lock in the system under test' in str(exc)
            if fs.abspath(st['cur']) not in opened and not deadlocked:
                raise kernel.HarnessError('storage seam bypassed: %s did not open its input through geodepy.gnss.open (%s: %s)'
                                          % (kind, type(exc).__name__ if exc else 'returned', str(exc)[:200] if exc else ''))
            if status == 'ok' and not reads and not fault_fired:
                raise kernel.HarnessError('clock seam bypassed: %s returned without reading the simulated clock' % kind)
            tcls = clock_class(reads[0]) if reads else 'no-clock-read'
            log.add('edit', kind, which, status, type(exc).__name__ if exc else '-', [t.isoformat() for t in reads])
            sigset.add('%s|%s|%s|%s|%s' % (kind, self._layout(model), sub, tcls, fkind if fault_fired else 'none'))
            st['judged'] += 1
            bump('edits_' + status)
            # reach probes on the clock
            if reads:
                sod = reads[0].hour * 3600 + reads[0].minute * 60 + reads[0].second
                if sod < 10000:
                    bump('probe:seconds_field_lt_10000')
                if sod == 0 and reads[0].microsecond < 500000:
                    bump('probe:midnight_exact')
                if len(reads) >= 2 and reads[0].date() != reads[-1].date():
                    bump('probe:midnight_between_reads')
                if len(reads) >= 2 and reads[0].year != reads[-1].year:
                    bump('probe:year_rollover_between_reads')
            # the input must never be modified
            if fs.get(st['cur']) != input_before:
                V('input-modified', kind, {'input': st['cur'], 'status': status})
            if faults:
                if not fault_fired:
                    bump('fault_planned_but_not_reached')
                if status != 'ok':
                    bump('fault_edit_raised')
                    st['pending'] = None
                    continue
            elif status != 'ok':
                V('edit-raised', tag, {'exc': type(exc).__name__, 'msg': str(exc)[:300], 'clock': [t.isoformat() for t in reads]})
                st['pending'] = None
                st['dirty'] = True
                return
            out = fs.get('output.snx').decode('utf-8', 'replace') if fs.exists('output.snx') else ''
            vs = self._judge_output(kind, tag, out, expected, model, input_before.decode('utf-8', 'replace'), reads, bump)
            if faults and fault_fired and vs:
                vs = [('fault-bad-output-after-normal-return', kind + '/' + o, d) for (o, s, d) in vs]
            for o, s, d in vs:
                d = dict(d)
                d['clock'] = [t.isoformat() for t in reads]
                V(o, s, d)
            results.append((out, bool(vs)))
            if vs:
                st['dirty'] = True
        if results and not results[-1][1]:
            outtxt = results[-1][0]
            omits = kind == 'remove_matrixzeros' or (st['omits_zero'] and kind != 'remove_velocity')
            if kind == 'remove_matrixzeros':
                omits = True
            st['pending'] = (expected, omits)
        else:
            st['pending'] = None

    @staticmethod
    def _subset(op, model):
        import random
        r = random.Random(op['pick'])
        codes = []
        for s in model.stations:
            if s['code'] not in codes:
                codes.append(s['code'])
        sub = op['subset']
        if 'codes' in op:
            return list(op['codes'])
        if sub == 'none':
            return []
        if sub == 'absent':
            return ['ZZZ9', 'QQ0Q'] + ([codes[0][:3]] if codes else [])
        if sub == 'first':
            return [codes[0]]
        if sub == 'last':
            return [codes[-1]]
        if sub == 'one':
            return [r.choice(codes)]
        if sub == 'all-but-one':
            keep = r.choice(codes)
            return [c for c in codes if c != keep]
        k = r.randrange(1, max(2, len(codes)))
        pick = r.sample(codes, min(k, len(codes)))
        if r.random() < 0.3:
            pick.append('ZZZ9')
        return pick

    # ------------------------------------------------------------------ oracles
    def _judge_output(self, kind, tag, out, expected, before_model, input_text, reads, bump):
        vs = []
        p = sx.parse_sinex(out)
        cats = {}
        for cat, msg in p['errors']:
            cats.setdefault(cat, []).append(msg)
        for cat, msgs in cats.items():
            if cat == 'header':
                reason = 'creation-field' if any('creation-field' in m for m in msgs) else (
                    'count-field' if any('count-field' in m for m in msgs) else 'layout')
                vs.append(('wf-header', '%s/%s' % (kind, reason), {'problems': msgs[:4], 'header': out.split('\n', 1)[0][:120]}))
            elif cat in ('blocks', 'trailer', 'file'):
                vs.append(('wf-blocks', '%s/%s' % (kind, cat), {'problems': msgs[:4]}))
            else:
                vs.append(('wf-records', '%s/%s' % (kind, cat), {'problems': msgs[:3]}))
        for need in ('SOLUTION/ESTIMATE', 'SOLUTION/MATRIX_ESTIMATE'):
            if need not in p['blocks']:
                vs.append(('wf-blocks', '%s/missing-block' % kind, {'block': need}))
        vs += sx.compare_solution(p, expected, tag)
        hdr = p.get('header', {})
        if kind == 'remove_velocity' and 'V' in hdr.get('contents', []):
            bump('obs_velocity_flag_left_in_header')
        # observations (not judged)
        if hdr.get('creation') and reads:
            t = reads[0]
            want = '%02d:%03d:%05d' % (t.year % 100, t.timetuple().tm_yday, t.hour * 3600 + t.minute * 60 + t.second)
            if hdr['creation'] != want:
                bump('obs_creation_field_differs_from_simulated_clock')
            if hdr['creation'][7:] == '86400':
                bump('obs_creation_seconds_86400')
        in_hdr = input_text.split('\n', 1)[0]
        if hdr.get('start') and hdr['start'] != in_hdr[32:44]:
            bump('obs_data_start_epoch_changed')
        if kind == 'remove_matrixzeros':
            vs += self._judge_zero_removal(out, input_text, bump)
        return vs

    @staticmethod
    def _judge_zero_removal(out, input_text, bump):
        vs = []

        def block(text):
            lines = text.split('\n')
            res = []
            go = False
            for l in lines:
                if l.startswith('+SOLUTION/MATRIX_ESTIMATE'):
                    go = True
                if go:
                    res.append(l.rstrip())
                if l.startswith('-SOLUTION/MATRIX_ESTIMATE'):
                    break
            return res
        bi = block(input_text)
        bo = block(out)

        def zero_width(l):
            c = l.split()
            if l.startswith(' ') and len(c) >= 3 and all(x == '0.00000000000000e+00' for x in c[2:]):
                return len(c) - 2
            return 0
        want = [l for l in bi if not zero_width(l)]
        for l in bi:
            w = zero_width(l)
            if w:
                bump('probe:zero_line_width_%d' % w)
        if bo != want:
            # diagnose
            so = set(bo)
            missing = [l for l in want if l not in so]
            kept_zero = [l for l in bo if zero_width(l)]
            extra = [l for l in bo if l not in set(bi)]
            if kept_zero:
                vs.append(('zero-lines', 'remove_matrixzeros/zero-line-kept', {'line': kept_zero[0][:90]}))
            if missing:
                vs.append(('zero-lines', 'remove_matrixzeros/nonzero-line-missing-or-not-on-own-line', {'line': missing[0][:90], 'n_missing': len(missing)}))
            if extra and not missing:
                vs.append(('zero-lines', 'remove_matrixzeros/line-changed', {'line': extra[0][:90]}))
            if not (kept_zero or missing or extra):
                vs.append(('zero-lines', 'remove_matrixzeros/order-changed', {}))
        return vs

    def _reader(self, kind, st, fs, V, bump, log, sigset):
        gnss = self.gnss
        model = st['model']
        if getattr(model, 'type_major', False):
            # the readers assemble one record per station from consecutive STAX .. VELZ lines; files that list all
            # positions before all velocities are outside what they (and the statement's reader clause) cover
            bump('skipped_reader_on_type_major_file')
            return
        st['judged'] += 1
        sigset.add('%s|%s|depth%d' % (kind, self._layout(model), min(st['depth'], 2)))
        nopens0 = len(fs.opens)
        try:
            if kind == 'read_estimate':
                got = gnss.read_sinex_estimate(st['cur'])
            elif kind == 'read_matrix':
                got = gnss.read_sinex_matrix(st['cur'])
            else:
                got = gnss.read_sinex_sites(st['cur'])
        except Exception as e:
            deadlocked = isinstance(e, RuntimeError) and 'dead-lock in the system under test' in str(e)
            if fs.abspath(st['cur']) not in [p for p, m in fs.opens[nopens0:]] and not deadlocked:
                raise kernel.HarnessError('storage seam bypassed: %s did not open its input through geodepy.gnss.open (%s: %s)'
                                          % (kind, type(e).__name__, str(e)[:200]))
            log.add(kind, 'raised', type(e).__name__)
            V('reader-raised', kind, {'exc': type(e).__name__, 'msg': str(e)[:300]})
            return
        if fs.abspath(st['cur']) not in [p for p, m in fs.opens[nopens0:]]:
            raise kernel.HarnessError('storage seam bypassed: %s returned without opening its input through geodepy.gnss.open' % kind)
        log.add(kind, len(got), short_hash(repr(got), 12))
        self._judge_reader(kind, got, model, V, bump)

    def _call_reader(self, kind, name):
        gnss = self.gnss
        if kind == 'read_estimate':
            return gnss.read_sinex_estimate(name)
        if kind == 'read_matrix':
            return gnss.read_sinex_matrix(name)
        return gnss.read_sinex_sites(name)

    def _concurrent_reads(self, op, st, fs, V, bump, log, sigset):
        """Several callers read at the same time (2-4 baton threads, seeded scheduler, pre-emption at
        every line of geodepy/gnss.py): each must get exactly what a lone caller gets."""
        import random
        from detsim.sched import Sched, draw_decider, SimCancelled, StepBudgetExceeded
        r = random.Random(op['seed'])
        lib = st.setdefault('library', {})
        names = sorted(n for n in lib if fs.exists(n) and not getattr(lib[n], 'type_major', False))
        if not names or getattr(lib.get(st['cur']), 'type_major', False):
            return
        T = op['threads']
        jobs = []
        for t in range(T):
            name = st['cur'] if (st['cur'] in lib and r.random() < 0.6) else r.choice(names)
            jobs.append((r.choice(['read_estimate', 'read_matrix', 'read_sites']), name))
        if r.random() < 0.5:
            jobs = [jobs[0]] * T                 # the same call from every caller
        if op.get('jobs'):
            jobs = [tuple(j) for j in op['jobs'] if j[1] in lib and fs.exists(j[1]) and not getattr(lib[j[1]], 'type_major', False)]
            if len(jobs) != T:
                return
        if op.get('mode') == 'preempt':
            from detsim.sched import Replay
            L = self._reader_length(jobs[0])
            pnt = 1 + int(op['frac'] * max(L, 1))
            decider = Replay([[0, pnt, 1]] + ([[1, pnt, 0]] if op.get('diag') else []))
            bump('reader_race_sweep_runs')
        else:
            decider = draw_decider(r, T, horizon=4000)
        sched = Sched(T, decider, log, self.is_sut_file, max_steps=3000000)
        out = [None] * T

        def body(t):
            def run(tid):
                sched.begin_op(tid, t)
                try:
                    out[t] = ('ok', self._call_reader(*jobs[t]))
                except (SimCancelled, StepBudgetExceeded):
                    raise
                except Exception as e:
                    out[t] = ('raised', e)
                finally:
                    sched.end_op(tid)
            return run
        sched.run([body(t) for t in range(T)])
        bump('concurrent_read_batches')
        bump('context_switches', sched.nswitch)
        st['judged'] += 1
        for t, (kind, name) in enumerate(jobs):
            model = lib[name]
            sigset.add('concurrent|%s|%s|T%d' % (kind, self._layout(model), T))
            status, got = out[t] if out[t] is not None else ('raised', RuntimeError('no result'))
            if status == 'raised':
                log.add('cread', t, kind, 'raised', type(got).__name__)
                V('reader-raised', 'concurrent/' + kind, {'exc': type(got).__name__, 'msg': str(got)[:300], 'threads': T})
                continue
            log.add('cread', t, kind, len(got), short_hash(repr(got), 12))
            self._judge_reader(kind, got, model, lambda o, site, d: V(o, 'concurrent/' + site, dict(d, threads=T)), bump)

    def _edit_size(self, fn, args, fs, cur):
        """(reads of the input, write calls, bytes written to output.snx) of one un-faulted edit call, measured
        in a forked child"""
        import os
        rd, wr = os.pipe()
        pid = os.fork()
        if pid == 0:
            code = 0
            try:
                os.close(rd)
                r0 = fs.read_count.get(fs.abspath(cur), 0)
                w0 = fs.write_calls
                try:
                    fn(*args)
                except BaseException:
                    pass
                out = fs.abspath('output.snx')
                os.write(wr, b'%d %d %d' % (fs.read_count.get(fs.abspath(cur), 0) - r0, fs.write_calls - w0,
                                            len(fs.files.get(out, b''))))
            except BaseException:
                code = 1
            os._exit(code)
        os.close(wr)
        data = b''
        while True:
            chunk = os.read(rd, 64)
            if not chunk:
                break
            data += chunk
        os.close(rd)
        os.waitpid(pid, 0)
        try:
            a, b, c = data.split()
            return int(a), int(b), int(c)
        except ValueError:
            return 0, 0, 0

    def _reader_length(self, job):
        """line events of one reader call made alone - measured in a forked child so that the measuring call
        leaves nothing behind (a table built on first use must still be unbuilt when the race starts)"""
        import os
        import sys
        rd, wr = os.pipe()
        pid = os.fork()
        if pid == 0:
            n = [0]
            code = 0
            try:
                os.close(rd)
                is_sut = self.is_sut_file

                def g(frame, event, arg):
                    if not is_sut(frame.f_code.co_filename):
                        return None
                    return l

                def l(frame, event, arg):
                    if event == 'line':
                        n[0] += 1
                    return l
                sys.settrace(g)
                try:
                    self._call_reader(*job)
                except Exception:
                    pass
                sys.settrace(None)
                os.write(wr, b'%d' % n[0])
            except BaseException:
                code = 1
            os._exit(code)
        os.close(wr)
        data = b''
        while True:
            chunk = os.read(rd, 64)
            if not chunk:
                break
            data += chunk
        os.close(rd)
        os.waitpid(pid, 0)
        try:
            return int(data)
        except ValueError:
            return 0

    def _judge_reader(self, kind, got, model, V, bump):
        per = model.per
        if kind == 'read_estimate':
            if len(got) != len(model.stations):
                V('reader-estimate', 'count', {'expected': len(model.stations), 'got': len(got)})
                return
            for k, (g, s) in enumerate(zip(got, model.stations)):
                want = (s['code'], s['soln'], s['epoch']) + tuple(float(x) for x in s['est'][:3]) + tuple(float(x) for x in s['sig'][:3])
                if per == 6:
                    want += tuple(float(x) for x in s['est'][3:]) + tuple(float(x) for x in s['sig'][3:])
                g2 = tuple(x.strip() if isinstance(x, str) else x for x in g)
                if g2 != want:
                    idx = next((i for i, (a, b) in enumerate(zip(g2, want)) if a != b), len(want))
                    names = ['code', 'soln', 'refEpoch', 'staX', 'staY', 'staZ', 'staX_sd', 'staY_sd', 'staZ_sd', 'velX', 'velY', 'velZ',
                             'velX_sd', 'velY_sd', 'velZ_sd']
                    V('reader-estimate', names[idx] if idx < len(names) else 'length',
                      {'station': k, 'expected': repr(want)[:300], 'got': repr(g2)[:300]})
                    return
        elif kind == 'read_matrix':
            if len(got) != len(model.stations):
                V('reader-matrix', 'count', {'expected': len(model.stations), 'got': len(got)})
                return
            c = model.cov
            for k, (g, s) in enumerate(zip(got, model.stations)):
                b = k * per
                want = [s['code'], s['soln'], c[b][b], c[b][b + 1], c[b][b + 2], c[b + 1][b + 1], c[b + 1][b + 2], c[b + 2][b + 2]]
                if per == 6:
                    v = b + 3
                    want += [c[v][v], c[v][v + 1], c[v][v + 2], c[v + 1][v + 1], c[v + 1][v + 2], c[v + 2][v + 2]]
                g2 = [x.strip() if isinstance(x, str) else float(x) for x in g]
                if g2 != want:
                    idx = next((i for i, (a, b2) in enumerate(zip(g2, want)) if a != b2), len(want))
                    names = ['code', 'soln', 'var_x', 'covar_xy', 'covar_xz', 'var_y', 'covar_yz', 'var_z', 'var_v_x', 'covar_v_xy',
                             'covar_v_xz', 'var_v_y', 'covar_v_yz', 'var_v_z']
                    V('reader-matrix', '%s/%s' % (model.triangle, names[idx] if idx < len(names) else 'length'),
                      {'station': k, 'expected': repr(want)[:300], 'got': repr(g2)[:300]})
                    return
        else:
            uniq = []
            seen = set()
            for s in model.stations:
                if (s['code'], s['pt']) not in seen:
                    seen.add((s['code'], s['pt']))
                    uniq.append(s)
            if len(got) != len(uniq):
                V('reader-sites', 'count', {'expected': len(uniq), 'got': len(got)})
                return
            for k, (g, s) in enumerate(zip(got, uniq)):
                site, point, domes, obs, desc, lon, lat, h = g
                want = {'site': s['code'], 'point': s['pt'], 'domes': s['domes'], 'obs': s['tech'], 'description': s['desc'][:22].strip(),
                        'lon': (True, s['lon'][0], s['lon'][1], s['lon'][2]),
                        'lat': (s['lat'][0] > 0, s['lat'][1], s['lat'][2], s['lat'][3]), 'h': s['h']}
                if s['lat'][0] < 0 and s['lat'][1] == 0:
                    bump('probe:site_latitude_minus_zero_degrees')
                gotd = {'site': site.strip(), 'point': point.strip(), 'domes': domes.strip(), 'obs': obs.strip(), 'description': desc.strip(),
                        'lon': (lon.positive, lon.degree, lon.minute, lon.second), 'lat': (lat.positive, lat.degree, lat.minute, lat.second),
                        'h': h}
                for f in ('site', 'point', 'domes', 'obs', 'description', 'lon', 'lat', 'h'):
                    if gotd[f] != want[f]:
                        V('reader-sites', f, {'station': k, 'expected': repr(want[f]), 'got': repr(gotd[f])})
                        return

    # ---------------------------------------------------------------- shrinking
    def shrink_fields(self, trace):
        return ['faults', 'ops']

    def simplify(self, trace):
        # fewer stations in every generated input
        for j, o in enumerate(trace['ops']):
            if o['kind'] == 'gen' and len(o['spec']['stations']) > 1:
                for cut in (len(o['spec']['stations']) // 2, len(o['spec']['stations']) - 1):
                    if cut < 1:
                        continue
                    t2 = dict(trace)
                    ops = list(trace['ops'])
                    s2 = dict(o['spec'])
                    s2['stations'] = o['spec']['stations'][:cut]
                    ops[j] = dict(o, spec=s2)
                    t2['ops'] = ops
                    yield t2
        for j, o in enumerate(trace['ops']):
            if o['kind'] == 'gen' and (o['spec'].get('zero_frac') or o['spec'].get('reference_block') or o['spec'].get('comments')):
                t2 = dict(trace)
                ops = list(trace['ops'])
                s2 = dict(o['spec'], zero_frac=0, reference_block=False, comments=[])
                ops[j] = dict(o, spec=s2)
                t2['ops'] = ops
                yield t2
        for j, o in enumerate(trace['ops']):
            if 't2' in o and o['t2'] is not None:
                t2 = dict(trace)
                ops = list(trace['ops'])
                ops[j] = dict(o, t2=None)
                t2['ops'] = ops
                yield t2

    # ----------------------------------------------------------------- canaries
    def canaries(self):
        import random
        spec = sx.gen_spec(random.Random(12345))
        spec['velocities'] = False
        spec['stations'] = spec['stations'][:3] if len(spec['stations']) >= 3 else spec['stations']
        for s in spec['stations']:
            s['est'], s['sig'] = s['est'][:3], s['sig'][:3]
        spec['zero_frac'] = 0
        base = [{'kind': 'gen', 'spec': spec, 'name': 'in.snx', 'id': 0}]
        t1 = {'property': 'C18', 'faults': [], 'canary': 'clock_formatter_drops_zeros',
              'ops': base + [{'kind': 'clock_set', 't': '2024-12-31T00:16:39', 'id': 1},
                             {'kind': 'remove_matrixzeros', 't2': None, 'id': 2}]}
        t2 = {'property': 'C18', 'faults': [], 'canary': 'renumber_from_zero',
              'ops': base + [{'kind': 'clock_set', 't': '2024-06-01T12:00:00', 'id': 1},
                             {'kind': 'remove_stns', 'subset': 'first', 'pick': 1, 't2': None, 'id': 2}]}
        t3 = {'property': 'C18', 'faults': [], 'canary': 'reader_truncates_value',
              'ops': base + [{'kind': 'read_estimate', 'id': 1}]}
        return [('clock formatter that drops leading zeros', t1, ['wf-header']),
                ('editor that keeps the wrong matrix column', t2, ['covariance']),
                ('reader that drops the last digit of a value', t3, ['reader-estimate'])]


class C18WithCanary(C18):
    def execute(self, trace):
        can = trace.get('canary')
        if not can:
            return C18.execute(self, trace)
        g = self.gnss
        saved = (g.set_creation_time, g.read_sinex_solution_matrix_estimate_block, g.read_sinex_estimate)
        try:
            if can == 'clock_formatter_drops_zeros':
                def bad():
                    now = g.datetime.now()
                    sec = now.hour * 3600 + now.minute * 60 + now.second
                    return '%s:%d:%d' % (str(now.year)[2:], now.timetuple().tm_yday, sec)
                g.set_creation_time = bad
            elif can == 'renumber_from_zero':
                orig = g.read_sinex_solution_matrix_estimate_block

                def bad_block(sinex):
                    b = orig(sinex)
                    out = []
                    for line in b:
                        if line.startswith(' '):
                            c = line.split()
                            if len(c) >= 4:
                                c[2], c[3] = c[3], c[2]
                                line = ' %5d %5d ' % (int(c[0]), int(c[1])) + ' '.join('%21s' % x for x in c[2:])
                        out.append(line)
                    return out
                g.read_sinex_solution_matrix_estimate_block = bad_block
            elif can == 'reader_truncates_value':
                orig_r = g.read_sinex_estimate

                def bad_reader(file):
                    r = orig_r(file)
                    return [t[:3] + (float(repr(t[3])[:-1]),) + t[4:] for t in r]
                g.read_sinex_estimate = bad_reader
            t = dict(trace)
            t.pop('canary')
            return C18.execute(self, t)
        finally:
            g.set_creation_time, g.read_sinex_solution_matrix_estimate_block, g.read_sinex_estimate = saved


CHECK = C18WithCanary()
